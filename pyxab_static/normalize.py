"""Source normalisation applied before the rules look at the code.

Purpose: the rules compare code shapes; behaviour-preserving maintenance edits (a helper extracted, a
temporary introduced, guard clauses with `continue` instead of if/else) must not change the shape they see.
The normaliser maps such variants back towards the vocabulary of the tree the rules were written for:

  N1  calls of helpers that are NOT in the baseline vocabulary (methods/functions that did not exist when the
      rules were written) are inlined at statement level (or at expression level when the helper is a single
      `return expr`), parameters substituted, helper locals renamed;
  N2  guard clauses inside loops - `if c: A; continue` followed by R - become `if c: A else: R`;
  N3  locals that are NOT in the function's baseline vocabulary, assigned exactly once from a side-effect-free
      expression whose inputs are not modified between the definition and the uses, are substituted into
      their uses; `bool(x)` wrappers around conditions are dropped.

  N0  parallel assignments `a, b = x, y` whose right-hand sides do not read the earlier targets are split into single ones;
  N4  `while True:` loops that start with `if c: break` become `while not c:`;
  N5  counter loops `i = a; while i < b: ...; i += 1` (bound not modified by the body, `i` not read after the loop,
      no `continue`) become `for i in range(a, b)`;
  helper inlining (N1) also handles helpers with guard-clause returns outside loops (return elimination) and renames an
  inlined result temporary to the variable it is copied to.

All of these are semantics-preserving rewrites of the analysed copy of the AST; /repo is never modified.  The
baseline vocabulary (`baseline_vocab.json`: class -> method names, function -> local names) only decides what
counts as "new"; it is not a reference the code is compared against.
"""
import ast
import copy
import json
import pathlib

VOCAB_FILE = pathlib.Path(__file__).resolve().parent / "baseline_vocab.json"
PURE_CALL_NAMES = {"len", "range", "abs", "min", "max", "float", "int", "bool", "list", "tuple", "enumerate", "zip", "sorted", "sum"}
PURE_NS = ("np.", "numpy.", "math.")
IMPURE_NP = ("np.random.", "numpy.random.")


def load_vocab():
    if VOCAB_FILE.exists():
        return json.loads(VOCAB_FILE.read_text())
    return {}


def class_attrs(cls_node):
    """[(attribute, source of the first value assigned to it or None)] in order of first store (constructor first)."""
    out, seen = [], set()
    fns = [f for f in cls_node.body if isinstance(f, ast.FunctionDef)]
    fns.sort(key=lambda f: (f.name != "__init__",))
    for f in fns:
        for n in ast.walk(f):
            tg = []
            if isinstance(n, ast.Assign):
                tg = [(t, n.value) for t in n.targets]
            elif isinstance(n, (ast.AugAssign, ast.AnnAssign)):
                tg = [(n.target, getattr(n, "value", None))]
            for t, v in tg:
                for x in ([t] if not isinstance(t, (ast.Tuple, ast.List)) else t.elts):
                    if isinstance(x, ast.Attribute) and isinstance(x.value, ast.Name) and x.value.id == "self" and x.attr not in seen:
                        seen.add(x.attr)
                        out.append([x.attr, src(v) if (v is not None and x is t) else None])
    return out


def local_signatures(fn):
    """local name -> sorted list of signatures of its definitions, with every local name abstracted to `_`: the right-hand
    side of an assignment (`=:<src>`, `op=:<src>`), the iterable and position of a for target (`for[i]:<src>`), with-targets and
    walrus likewise.  Two methods that differ only by a consistent renaming of locals have the same signatures."""
    locs = local_names(fn)

    class Abs(ast.NodeTransformer):
        def visit_Name(self, n):
            if n.id in locs and n.id != "self":
                return ast.copy_location(ast.Name(id="_", ctx=n.ctx), n)
            return n

    def ab(e):
        return src(Abs().visit(copy.deepcopy(e)))
    sig = {}

    def add(t, text, pos=""):
        if isinstance(t, ast.Name):
            sig.setdefault(t.id, []).append(text if not pos else "%s@%s" % (text, pos))
        elif isinstance(t, (ast.Tuple, ast.List)):
            for k, e in enumerate(t.elts):
                add(e, text, "%s%d" % (pos + "." if pos else "", k))
        elif isinstance(t, ast.Starred):
            add(t.value, text, pos + "*")
    for n in ast.walk(fn):
        if isinstance(n, ast.Assign):
            for t in n.targets:
                add(t, "=:" + ab(n.value))
        elif isinstance(n, ast.AugAssign):
            add(n.target, "%s=:%s" % (type(n.op).__name__, ab(n.value)))
        elif isinstance(n, ast.AnnAssign) and n.value is not None:
            add(n.target, "=:" + ab(n.value))
        elif isinstance(n, ast.For):
            add(n.target, "for:" + ab(n.iter))
        elif isinstance(n, ast.comprehension):
            add(n.target, "comp:" + ab(n.iter))
        elif isinstance(n, ast.NamedExpr):
            add(n.target, ":=" + ab(n.value))
    return {k: sorted(v) for k, v in sig.items()}


def undo_local_renames(fn, base_names, base_sigs):
    """Locals of a baseline method that were consistently renamed get their baseline names back: a baseline local that no longer
    occurs and a new local whose definition signatures (locals abstracted) are the same - and unique on both sides - are the same
    variable.  Alpha-renaming inside one function is semantics-preserving whatever the match."""
    if not base_sigs:
        return 0
    if any(isinstance(n, (ast.Global, ast.Nonlocal)) for n in ast.walk(fn)):
        return 0
    cur = local_names(fn)
    params = {a.arg for a in fn.args.args + fn.args.kwonlyargs + fn.args.posonlyargs}
    missing = [n for n in base_names if n not in cur and n in base_sigs]
    new = [n for n in cur if n not in base_names and n not in params and not n.startswith("__")]
    if not missing or not new:
        return 0
    cs = local_signatures(fn)
    by_sig_m, by_sig_n = {}, {}
    for m in missing:
        by_sig_m.setdefault(tuple(base_sigs[m]), []).append(m)
    for n in new:
        if n in cs:
            by_sig_n.setdefault(tuple(cs[n]), []).append(n)
    mapping = {}
    for sg, ms in by_sig_m.items():
        ns = by_sig_n.get(sg, [])
        if len(ms) == 1 and len(ns) == 1:
            mapping[ns[0]] = ms[0]
    if not mapping:
        return 0
    for n in ast.walk(fn):
        if isinstance(n, ast.Name) and n.id in mapping:
            n.id = mapping[n.id]
    return len(mapping)


def build_vocab(trees):
    out = {}
    for file, tree in trees.items():
        ent = {"classes": {}, "functions": {}, "attrs": {}, "params": {}, "local_sigs": {}}
        for n in tree.body:
            if isinstance(n, ast.ClassDef):
                ent["local_sigs"][n.name] = {f.name: local_signatures(f) for f in n.body if isinstance(f, ast.FunctionDef)}
            elif isinstance(n, ast.FunctionDef):
                ent["local_sigs"].setdefault("", {})[n.name] = local_signatures(n)
        for n in tree.body:
            if isinstance(n, ast.ClassDef):
                ent["attrs"][n.name] = class_attrs(n)
                ent["params"][n.name] = {f.name: [a.arg for a in f.args.args] for f in n.body if isinstance(f, ast.FunctionDef)}
            if isinstance(n, ast.ClassDef):
                ent["classes"][n.name] = {f.name: sorted(local_names(f)) for f in n.body if isinstance(f, ast.FunctionDef)}
            elif isinstance(n, ast.FunctionDef):
                ent["functions"][n.name] = sorted(local_names(n))
        out[file] = ent
    return out


def undo_renames(trees, vocab):
    """Consistent renamings relative to the baseline vocabulary are undone on the analysed copy:
    * a class lost attribute `a` and gained attribute `b` (matched by the value first assigned to it, else by position when as
      many were lost as gained): every `.b` in that file becomes `.a`;
    * a class lost method `m` and gained method `m2` with the same parameter list, and `m2` is the only such candidate: the
      definition and every call `.m2(..)` in the analysed packages become `m`.
    Alpha-renaming is semantics-preserving whatever the match (the library uses no reflection: R14-DYN), so a wrong match can
    only make a rule fail to recognise a role, never hide a violation."""
    log = []
    meth_map = {}
    for file, tree in trees.items():
        v = vocab.get(file)
        if not v or "attrs" not in v:
            continue
        amap = {}
        for c in tree.body:
            if not isinstance(c, ast.ClassDef) or c.name not in v["attrs"]:
                continue
            base = [tuple(x) for x in v["attrs"][c.name]]
            cur = [tuple(x) for x in class_attrs(c)]
            bnames, cnames = [a for a, _ in base], [a for a, _ in cur]
            missing = [(a, i) for a, i in base if a not in cnames]
            new = [(a, i) for a, i in cur if a not in bnames]
            pairs = []
            for a, init in list(missing):
                cands = [b for b, bi in new if bi is not None and bi == init]
                if init is not None and len(cands) == 1 and sum(1 for a2, i2 in missing if i2 == init) == 1:
                    pairs.append((cands[0], a))
                    new = [(b, bi) for b, bi in new if b != cands[0]]
                    missing = [(a2, i2) for a2, i2 in missing if a2 != a]
            if missing and len(missing) == len(new):
                pairs += [(b, a) for (a, _), (b, _) in zip(missing, new)]
            for b, a in pairs:
                if b in amap and amap[b] != a:
                    continue
                amap[b] = a
            # methods
            bm = v["params"].get(c.name, {})
            cm = {f.name: [x.arg for x in f.args.args] for f in c.body if isinstance(f, ast.FunctionDef)}
            lost = [m for m in bm if m not in cm]
            gained = [m for m in cm if m not in bm]
            for m in lost:
                cands = [g for g in gained if cm[g] == bm[m] or len(cm[g]) == len(bm[m])]
                exact = [g for g in cands if cm[g] == bm[m]]
                pick = exact if len(exact) == 1 else (cands if len(cands) == 1 and len(lost) == 1 else [])
                if len(pick) == 1 and pick[0] not in meth_map:
                    meth_map[pick[0]] = m
                    gained.remove(pick[0])
        if amap:
            for n in ast.walk(tree):
                if isinstance(n, ast.Attribute) and n.attr in amap:
                    n.attr = amap[n.attr]
                elif isinstance(n, ast.keyword) and False:
                    pass
            log.append("%s: attributes renamed back %s" % (file, sorted(amap.items())))
    # the new name must belong to the renamed class only (every `.g` in the packages is renamed): not a baseline name of any
    # class and defined exactly once now
    count = {}
    for t in trees.values():
        for c in t.body:
            if isinstance(c, ast.ClassDef):
                for f in c.body:
                    if isinstance(f, ast.FunctionDef):
                        count[f.name] = count.get(f.name, 0) + 1
    baseline_names = {m for v in vocab.values() for ms in v.get("params", {}).values() for m in ms}
    meth_map = {g: m for g, m in meth_map.items() if count.get(g) == 1 and g not in baseline_names}
    if meth_map:
        for t in trees.values():
            for n in ast.walk(t):
                if isinstance(n, ast.Attribute) and n.attr in meth_map:
                    n.attr = meth_map[n.attr]
                elif isinstance(n, ast.FunctionDef) and n.name in meth_map:
                    n.name = meth_map[n.name]
        log.append("methods renamed back %s" % sorted(meth_map.items()))
    return log


def local_names(fn):
    out = set(a.arg for a in fn.args.args + fn.args.kwonlyargs)
    for n in ast.walk(fn):
        if isinstance(n, ast.Name) and isinstance(n.ctx, ast.Store):
            out.add(n.id)
        elif isinstance(n, ast.FunctionDef) and n is not fn:
            out.add(n.name)
    return out


def src(e):
    return " ".join(ast.unparse(e).split())


# ---------------------------------------------------------------------------
# N1 helper inlining


class _Rename(ast.NodeTransformer):
    def __init__(self, mapping, exprs):
        self.mapping = mapping      # local name -> new local name
        self.exprs = exprs          # parameter name -> replacement expression AST

    def visit_Name(self, n):
        if n.id in self.exprs and isinstance(n.ctx, ast.Load):
            return copy.deepcopy(self.exprs[n.id])
        if n.id in self.mapping:
            return ast.copy_location(ast.Name(id=self.mapping[n.id], ctx=n.ctx), n)
        return n


def simple_arg(e):
    """Expressions that may be substituted textually for a parameter (no side effects, cheap)."""
    if isinstance(e, (ast.Constant, ast.Name)):
        return True
    if isinstance(e, ast.Attribute):
        return simple_arg(e.value)
    if isinstance(e, ast.Subscript):
        return simple_arg(e.value) and simple_arg(e.slice)
    if isinstance(e, ast.Call) and isinstance(e.func, ast.Attribute) and e.func.attr.startswith("get_") and not e.args and not e.keywords:
        return simple_arg(e.func.value)
    if isinstance(e, ast.UnaryOp):
        return simple_arg(e.operand)
    if isinstance(e, ast.BinOp):
        return simple_arg(e.left) and simple_arg(e.right)
    return False


RET = "__retval__"


def _has_return(s):
    return any(isinstance(n, ast.Return) for n in ast.walk(s))


def eliminate_returns(stmts):
    """Rewrite a statement list whose returns are all outside loops/try/with into one without `return`: the value goes to
    the local RET and the statements after a returning branch move into the other branch.
    Returns (new statements, always_returns) or None when a return sits inside a loop / try / with / nested function."""
    out = []
    for i, s in enumerate(stmts):
        if isinstance(s, ast.Return):
            out.append(ast.Assign(targets=[ast.Name(id=RET, ctx=ast.Store())], value=s.value if s.value is not None else ast.Constant(value=None)))
            return out, True
        if isinstance(s, ast.If) and _has_return(s):
            a = eliminate_returns(s.body)
            b = eliminate_returns(s.orelse)
            if a is None or b is None:
                return None
            (body, ra), (orelse, rb) = a, b
            rest = stmts[i + 1:]
            if ra and rb:
                out.append(ast.If(test=s.test, body=body, orelse=orelse))
                return out, True
            if not ra and not rb:
                # a branch returns on some of its paths only: what follows the statement is continued inside both branches
                # (tail duplication), where every return is again the end of a path
                if sum(1 for t in rest for _x in ast.walk(t)) > 400:
                    return None
                a2 = eliminate_returns(list(s.body) + copy.deepcopy(rest))
                b2 = eliminate_returns(list(s.orelse) + copy.deepcopy(rest))
                if a2 is None or b2 is None:
                    return None
                out.append(ast.If(test=s.test, body=a2[0] or [ast.Pass()], orelse=b2[0]))
                return out, a2[1] and b2[1]
            r = eliminate_returns(rest)
            if r is None:
                return None
            rest2, rr = r
            if ra:
                out.append(ast.If(test=s.test, body=body, orelse=orelse + rest2))
                return out, rr
            if rb:
                out.append(ast.If(test=s.test, body=body + rest2, orelse=orelse))
                return out, rr
            return None     # a branch returns on some of its paths only: needs a flag, not handled
        if isinstance(s, (ast.For, ast.While)) and not s.orelse and _has_return(s):
            # returns inside a loop: value to RET, flag DONE, break (propagated through enclosing loops); what follows the loop
            # runs only when the loop was not left that way
            r = eliminate_returns(stmts[i + 1:])
            if r is None:
                return None
            rest2, rr = r
            nested = any(isinstance(x, (ast.For, ast.While)) and _has_return(x) for b0 in s.body for x in ast.walk(b0))
            own_breaks = any(isinstance(x, ast.Break) for b0 in s.body for x in ast.walk(b0))
            if not nested and not own_breaks:
                # loop/else: the else clause runs exactly when the loop was not left through one of the (former) returns
                body = _loop_returns(s.body, flag=False)
                if body is None:
                    return None
                new = copy.copy(s)
                new.body = body
                new.orelse = rest2
                out.append(new)
                return out, rr
            body = _loop_returns(s.body)
            if body is None:
                return None
            new = copy.copy(s)
            new.body = body
            out.append(new)
            if rest2:
                out.append(ast.If(test=ast.UnaryOp(op=ast.Not(), operand=ast.Name(id=DONE, ctx=ast.Load())), body=rest2, orelse=[]))
            return out, rr
        if _has_return(s):
            return None
        out.append(s)
    return out, False


DONE = "__returned__"


def _loop_returns(stmts, flag=True):
    """Inside a loop body: `return X` -> RET = X; DONE = True; break.  An inner loop that may set DONE is followed by `if DONE: break`."""
    out = []
    for s in stmts:
        if isinstance(s, ast.Return):
            out.append(ast.Assign(targets=[ast.Name(id=RET, ctx=ast.Store())], value=s.value if s.value is not None else ast.Constant(value=None)))
            if flag:
                out.append(ast.Assign(targets=[ast.Name(id=DONE, ctx=ast.Store())], value=ast.Constant(value=True)))
            out.append(ast.Break())
            return out
        if isinstance(s, ast.If) and _has_return(s):
            a, b = _loop_returns(s.body, flag), _loop_returns(s.orelse, flag)
            if a is None or b is None:
                return None
            out.append(ast.If(test=s.test, body=a, orelse=b))
            continue
        if isinstance(s, (ast.For, ast.While)) and _has_return(s):
            if s.orelse and not any(_has_return(x) for x in s.body):
                # returns only in the else clause of an inner loop: that clause belongs to the enclosing loop's body (a break
                # there leaves the enclosing loop)
                b = _loop_returns(s.orelse, flag)
                if b is None:
                    return None
                new = copy.copy(s)
                new.orelse = b
                out.append(new)
                continue
            if s.orelse:
                return None
            b = _loop_returns(s.body)
            if b is None:
                return None
            new = copy.copy(s)
            new.body = b
            out.append(new)
            out.append(ast.If(test=ast.Name(id=DONE, ctx=ast.Load()), body=[ast.Break()], orelse=[]))
            continue
        if _has_return(s):
            return None
        out.append(s)
    return out


def bool_guard_expr(body):
    """`if c1: return False` / `if c2: return True` guards followed by `return E` as ONE expression with the same short-circuit
    order: (not c1) and (c2 or E).  Returns the expression AST or None."""
    if not body or not isinstance(body[-1], ast.Return) or body[-1].value is None:
        return None
    expr = body[-1].value
    for st in reversed(body[:-1]):
        if not (isinstance(st, ast.If) and not st.orelse and len(st.body) == 1 and isinstance(st.body[0], ast.Return) and
                isinstance(st.body[0].value, ast.Constant) and isinstance(st.body[0].value.value, bool)):
            return None
        if st.body[0].value.value is False:
            expr = ast.BoolOp(op=ast.And(), values=[negate(st.test), expr])
        else:
            expr = ast.BoolOp(op=ast.Or(), values=[st.test, expr])
    return expr


def helper_shape(fn):
    """(body statements without docstring and without returns, result expression or None) if inlinable."""
    body = list(fn.body)
    if body and isinstance(body[0], ast.Expr) and isinstance(body[0].value, ast.Constant) and isinstance(body[0].value.value, str):
        body = body[1:]
    if len(body) > 1 and not (fn.args.vararg or fn.args.kwarg or fn.args.kwonlyargs):
        be = bool_guard_expr(body)
        if be is not None:
            ast.fix_missing_locations(ast.Expression(body=be))
            return [], be
    if fn.args.vararg or fn.args.kwarg or fn.args.kwonlyargs:
        return None
    for s in body:
        for n in ast.walk(s):
            if isinstance(n, (ast.Yield, ast.YieldFrom, ast.FunctionDef, ast.Lambda, ast.Global, ast.Nonlocal)):
                return None
    ret = None
    if body and isinstance(body[-1], ast.Return) and not any(_has_return(x) for x in body[:-1]):
        return body[:-1], body[-1].value
    if not any(_has_return(x) for x in body):
        return body, None
    r = eliminate_returns(copy.deepcopy(body))
    if r is None:
        return None
    new, always = r
    if not always:
        new = [ast.Assign(targets=[ast.Name(id=RET, ctx=ast.Store())], value=ast.Constant(value=None))] + new
    if any(isinstance(x, ast.Name) and x.id == DONE for t in new for x in ast.walk(t)):
        new = [ast.Assign(targets=[ast.Name(id=DONE, ctx=ast.Store())], value=ast.Constant(value=False))] + new
    for x in new:
        ast.fix_missing_locations(x)
    return new, ast.Name(id=RET, ctx=ast.Load())


def drop_result_stores(stmts, name):
    """Remove the assignments to the (unused) result variable `name`; empty branches are repaired."""
    out = []
    for s in stmts:
        if isinstance(s, ast.Assign) and len(s.targets) == 1 and isinstance(s.targets[0], ast.Name) and s.targets[0].id == name:
            continue
        if isinstance(s, ast.If):
            s.body = drop_result_stores(s.body, name)
            s.orelse = drop_result_stores(s.orelse, name)
            if not s.body and not s.orelse:
                out.append(ast.copy_location(ast.Expr(value=s.test), s))
                continue
            if not s.body:
                s.test = negate(s.test)
                s.body, s.orelse = s.orelse, []
        out.append(s)
    return out


class Inliner:
    def __init__(self, file, tree, vocab):
        self.file = file
        self.tree = tree
        v = vocab.get(file, {"classes": {}, "functions": {}})
        self.known_functions = set(v["functions"])
        self.known_methods = {c: set(m) for c, m in v["classes"].items()}
        self.vocab_classes = v["classes"]
        self.vocab_functions = v["functions"]
        self.caller_known = set()
        self.caller_fn = None
        self.module_helpers = {n.name: n for n in tree.body if isinstance(n, ast.FunctionDef) and n.name not in self.known_functions}
        self.counter = 0
        self.inlined = []
        self.local_helpers = {}
        # new module-level helpers of OTHER analysed modules that this module imports by name
        for n in tree.body:
            if isinstance(n, ast.ImportFrom) and n.module and n.level == 0:
                src_file = n.module.replace(".", "/") + ".py"
                pool = IMPORTABLE_HELPERS[0].get(src_file, {})
                for a in n.names:
                    if a.name in pool and (a.asname or a.name) not in self.module_helpers and (a.asname or a.name) not in self.known_functions:
                        self.module_helpers[a.asname or a.name] = pool[a.name]
        self.reduce_names = {"functools.reduce"}
        for n in tree.body:
            if isinstance(n, ast.ImportFrom) and n.module == "functools":
                for a in n.names:
                    if a.name == "reduce":
                        self.reduce_names.add(a.asname or a.name)
            elif isinstance(n, ast.Import):
                for a in n.names:
                    if a.name == "functools" and a.asname:
                        self.reduce_names.add(a.asname + ".reduce")

    def helpers_of(self, cls):
        known = self.known_methods.get(cls.name)
        if known is None:
            return {}
        out = {}
        for f in cls.body:
            if isinstance(f, ast.FunctionDef) and f.name not in known and not f.name.startswith("__") and f.name not in MULTIPLY_DEFINED[0]:
                # (a method name defined in several classes may be an override: self.m() is dispatched on the instance's class,
                # inlining the definition found here would be wrong for subclasses)
                out[f.name] = f
        return out

    def inline_properties(self, cls, helpers):
        """New `@property` methods whose body is a single `return expr`: every read `self.<name>` is replaced by expr."""
        props = {}
        for name, f in helpers.items():
            if any(isinstance(d, ast.Name) and d.id == "property" for d in f.decorator_list) and len(f.args.args) == 1:
                shape = helper_shape(f)
                if shape is not None and not shape[0] and shape[1] is not None:
                    props[name] = shape[1]
        if not props:
            return
        me = self

        class Sub(ast.NodeTransformer):
            def visit_Attribute(self, n):
                self.generic_visit(n)
                if isinstance(n.ctx, ast.Load) and isinstance(n.value, ast.Name) and n.value.id == "self" and n.attr in props:
                    me.inlined.append("%s -> (property)" % n.attr)
                    return ast.copy_location(copy.deepcopy(props[n.attr]), n)
                return n
        for f in cls.body:
            if isinstance(f, ast.FunctionDef) and f.name not in props:
                Sub().visit(f)
                ast.fix_missing_locations(f)
        cls.body = [f for f in cls.body if not (isinstance(f, ast.FunctionDef) and f.name in props)]

    def run(self):
        for node in self.tree.body:
            if isinstance(node, ast.ClassDef):
                helpers = self.helpers_of(node)
                for hf in helpers.values():
                    # temporaries of a new helper are new by definition: fold them so that more helpers are single expressions
                    try:
                        split_tuple_assigns(hf)
                        # (locals that carry the name of a baseline local of some method of the class are kept: code moved out
                        # of a method into a helper then reads as it did before)
                        base_names = set()
                        for names in self.vocab_classes.get(node.name, {}).values():
                            base_names |= set(names or [])
                        substitute_new_temps(hf, set(a.arg for a in hf.args.args) | base_names)
                    except RecursionError:
                        pass
                self.inline_properties(node, helpers)
                helpers = self.helpers_of(node)
                for _ in range(3):
                    changed = False
                    for f in node.body:
                        if isinstance(f, ast.FunctionDef):
                            changed |= self.inline_in(f, node, helpers)
                    if not changed:
                        break
            elif isinstance(node, ast.FunctionDef):
                for _ in range(3):
                    if not self.inline_in(node, None, {}):
                        break
        return self.inlined

    def match_call(self, call, cls, helpers):
        """Return (helper FunctionDef, is_method) if `call` calls an inlinable new helper."""
        f = call.func
        if isinstance(f, ast.Attribute) and isinstance(f.value, ast.Name) and cls is not None:
            if f.value.id in ("self", cls.name) and f.attr in helpers:
                return helpers[f.attr], True
            inh = INHERITED_HELPERS[0].get(cls.name, {})
            if f.value.id in ("self", cls.name) and f.attr in inh and not any(isinstance(x, ast.FunctionDef) and x.name == f.attr for x in cls.body):
                return inh[f.attr], True        # a new helper inherited from a base class of another module
        if isinstance(f, ast.Name) and f.id in self.local_helpers:
            return self.local_helpers[f.id], False
        if isinstance(f, ast.Name) and f.id in self.module_helpers:
            return self.module_helpers[f.id], False
        return None, False

    def bind(self, helper, is_method, call):
        params = [a.arg for a in helper.args.args]
        static = any(isinstance(d, ast.Name) and d.id == "staticmethod" for d in helper.decorator_list)
        if is_method and not static:
            params = params[1:]
        defaults = helper.args.defaults
        vals = {}
        for p, a in zip(params, call.args):
            vals[p] = a
        for k in call.keywords:
            if k.arg is None or k.arg not in params:
                return None
            vals[k.arg] = k.value
        for p, d in zip(params[len(params) - len(defaults):], defaults):
            vals.setdefault(p, d)
        if set(vals) != set(params) or any(isinstance(a, ast.Starred) for a in call.args):
            return None
        return params, vals

    def instantiate(self, helper, is_method, call):
        shape = helper_shape(helper)
        if shape is None:
            return None
        b = self.bind(helper, is_method, call)
        if b is None:
            return None
        params, vals = b
        body, ret = shape
        self.counter += 1
        tag = "__%s%d_" % (helper.name.strip("_"), self.counter)
        assigned = set()
        for s in body:
            for n in ast.walk(s):
                if isinstance(n, ast.Name) and isinstance(n.ctx, ast.Store):
                    assigned.add(n.id)
        exprs, pre, mapping = {}, [], {}
        for p in params:
            if p not in assigned and simple_arg(vals[p]):
                exprs[p] = vals[p]
            else:
                mapping[p] = tag + p
                pre.append(ast.Assign(targets=[ast.Name(id=tag + p, ctx=ast.Store())], value=copy.deepcopy(vals[p])))
        in_caller = set()
        if self.caller_fn is not None:
            in_caller = {n.id for n in ast.walk(self.caller_fn) if isinstance(n, ast.Name)} | {a.arg for a in self.caller_fn.args.args}
        for n in assigned:
            if n not in mapping:
                if n in self.caller_known and n not in in_caller and n != RET and not n.startswith("__"):
                    # code that was moved out of the caller into the helper keeps the name it had there: the local belongs to the
                    # caller's baseline vocabulary and is free in the caller now, so no renaming is needed (alpha-equivalent)
                    mapping[n] = n
                else:
                    mapping[n] = tag + n
        rn = _Rename(mapping, exprs)
        new_body = [rn.visit(copy.deepcopy(s)) for s in body]
        new_ret = rn.visit(copy.deepcopy(ret)) if ret is not None else None
        for s in pre + new_body:
            ast.copy_location(s, call)
            ast.fix_missing_locations(s)
        return pre + new_body, new_ret

    def inline_generator_loop(self, s, cls, helpers, fn):
        """for v in self._gen(args): BODY  with _gen a new generator helper built only from loops / ifs and `yield e` /
        `yield from L` statements: the helper's body with every yield replaced by (v = e; BODY) resp. (for v in L: BODY).
        BODY must not break/return out of the loop being replaced... a return is fine (it leaves the function either way),
        break / for-else are not."""
        if not (isinstance(s, ast.For) and not s.orelse and isinstance(s.iter, ast.Call)):
            return None
        h, is_m = self.match_call(s.iter, cls, helpers)
        if h is None or h is fn:
            return None
        if not any(isinstance(x, (ast.Yield, ast.YieldFrom)) for x in ast.walk(h)):
            return None
        if any(isinstance(x, ast.Break) for b in s.body for x in ast.walk(b)):
            return None
        b = self.bind(h, is_m, s.iter)
        if b is None:
            return None
        params, vals = b
        if not all(simple_arg(vals[p]) for p in params):
            return None
        body = list(h.body)
        if body and isinstance(body[0], ast.Expr) and isinstance(body[0].value, ast.Constant) and isinstance(body[0].value.value, str):
            body = body[1:]
        self.counter += 1
        tag = "__%s%d_" % (h.name.strip("_"), self.counter)
        assigned = {n.id for t in body for n in ast.walk(t) if isinstance(n, ast.Name) and isinstance(n.ctx, ast.Store)}
        mapping = {n: tag + n for n in assigned}
        rn = _Rename(mapping, {p: vals[p] for p in params if p not in assigned})
        ok = [True]
        loop_body, target = s.body, s.target

        def conv(stmts):
            out = []
            for t in stmts:
                if isinstance(t, ast.Expr) and isinstance(t.value, ast.Yield):
                    if t.value.value is None:
                        ok[0] = False
                        continue
                    v = t.value.value
                    stores = {n.id for b2 in loop_body for n in ast.walk(b2) if isinstance(n, ast.Name) and isinstance(n.ctx, ast.Store)}
                    body_ids = {id(m) for b2 in loop_body for m in ast.walk(b2)}
                    if isinstance(target, ast.Name) and isinstance(v, ast.Name) and target.id not in stores and v.id not in stores and \
                            not any(isinstance(n, (ast.FunctionDef, ast.Lambda)) for b2 in loop_body for n in ast.walk(b2)) and \
                            not any(isinstance(n, ast.Name) and n.id == target.id and id(n) not in body_ids and n is not target for n in ast.walk(fn)):
                        # the loop variable is only read inside the body: the yielded variable is read in its place
                        out.extend(_Rename({}, {target.id: v}).visit(copy.deepcopy(b2)) for b2 in loop_body)
                    else:
                        out.append(ast.Assign(targets=[copy.deepcopy(target)], value=v))
                        out.extend(copy.deepcopy(loop_body))
                elif isinstance(t, ast.Expr) and isinstance(t.value, ast.YieldFrom):
                    out.append(ast.For(target=copy.deepcopy(target), iter=t.value.value, body=copy.deepcopy(loop_body), orelse=[]))
                elif isinstance(t, (ast.For, ast.While)) and not t.orelse:
                    n2 = copy.copy(t)
                    n2.body = conv(t.body)
                    out.append(n2)
                elif isinstance(t, ast.If):
                    n2 = copy.copy(t)
                    n2.body = conv(t.body)
                    n2.orelse = conv(t.orelse)
                    out.append(n2)
                elif any(isinstance(x, (ast.Yield, ast.YieldFrom, ast.Return)) for x in ast.walk(t)):
                    ok[0] = False
                else:
                    out.append(t)
            return out
        new = conv([rn.visit(copy.deepcopy(t)) for t in body])
        if not ok[0]:
            return None
        for t in new:
            ast.copy_location(t, s)
            ast.fix_missing_locations(t)
        self.inlined.append("%s -> %s (generator)" % (h.name, fn.name))
        return new

    def hoist_nested(self, s, cls, helpers, fn):
        """A statement-level-inlinable helper call nested inside a simple statement's expression (or an if-test) is evaluated
        into a temporary first, when nothing that could observe the difference is evaluated before it."""
        if isinstance(s, ast.If):
            root = s.test
            field = "test"
        elif isinstance(s, (ast.Expr, ast.Assign, ast.AugAssign, ast.AnnAssign, ast.Return)) and getattr(s, "value", None) is not None:
            root = s.value
            field = "value"
        else:
            return None
        h0, _ = self.match_call(root, cls, helpers) if isinstance(root, ast.Call) else (None, False)
        if h0 is not None and field == "value":
            return None
        par = {}
        for a in ast.walk(root):
            for b in ast.iter_child_nodes(a):
                par[id(b)] = a
        cands = []
        for n in ast.walk(root):
            if isinstance(n, ast.Call):
                h, is_m = self.match_call(n, cls, helpers)
                if h is not None and h is not fn:
                    shape = helper_shape(h)
                    if shape is not None and (shape[0] or shape[1] is None):
                        cands.append(n)
        if len(cands) != 1:
            return None
        H = cands[0]
        anc = set()
        q = H
        while id(q) in par:
            q = par[id(q)]
            anc.add(id(q))
            if isinstance(q, (ast.Lambda, ast.ListComp, ast.SetComp, ast.DictComp, ast.GeneratorExp, ast.IfExp)):
                return None
            if isinstance(q, ast.BoolOp) and not any(x is H for x in ast.walk(q.values[0])):
                return None
        for n in ast.walk(root):
            if isinstance(n, ast.Call) and n is not H and id(n) not in anc and not any(x is n for x in ast.walk(H)):
                if not pure_expr(n):
                    return None
        if isinstance(s, (ast.Assign, ast.AugAssign, ast.AnnAssign)):
            tg = s.targets if isinstance(s, ast.Assign) else [s.target]
            if any(not isinstance(t, ast.Name) for t in tg):
                return None     # a subscript / attribute target is evaluated around the value: keep the order
        self.counter += 1
        name = "__hoist%d" % self.counter

        class Rep(ast.NodeTransformer):
            def visit_Call(self, n):
                if n is H:
                    return ast.copy_location(ast.Name(id=name, ctx=ast.Load()), n)
                return self.generic_visit(n)
        if root is H:
            setattr(s, field, ast.copy_location(ast.Name(id=name, ctx=ast.Load()), H))
        else:
            setattr(s, field, Rep().visit(root))
        new = ast.Assign(targets=[ast.Name(id=name, ctx=ast.Store())], value=H)
        ast.copy_location(new, s)
        ast.fix_missing_locations(new)
        ast.fix_missing_locations(s)
        return new

    def inline_in(self, fn, cls, helpers):
        changed = [False]
        me = self
        self.caller_fn = fn
        if cls is not None:
            self.caller_known = set(self.vocab_classes.get(cls.name, {}).get(fn.name, []) or [])
        else:
            self.caller_known = set(self.vocab_functions.get(fn.name, []) or [])
        # nested functions (closures) defined at the top level of fn, bound once, without nonlocal/global/defaults: they read
        # the enclosing variables where they are called, so inlining them in place is the same computation
        self.local_helpers = {}
        for st in fn.body:
            if isinstance(st, ast.FunctionDef) and not st.decorator_list and not st.args.defaults and \
                    sum(1 for n in ast.walk(fn) if isinstance(n, ast.Name) and n.id == st.name and isinstance(n.ctx, ast.Store)) == 0 and \
                    sum(1 for n in ast.walk(fn) if isinstance(n, ast.FunctionDef) and n.name == st.name) == 1 and \
                    not any(isinstance(n, (ast.Nonlocal, ast.Global)) for n in ast.walk(st)):
                # variables the closure reads must not be rebound between its definition and its calls in a way that matters:
                # a closure reads the CURRENT value at call time, exactly like inlined code does - always equivalent
                self.local_helpers[st.name] = st

        def forward_generator_objects(stmts):
            """g = self._gen(args) ... for .. in g / enumerate(g):   the generator object bound to a local that is used exactly once, as
            that loop's iterable: creating it runs nothing, so the call is written where it is iterated (arguments: plain
            designators that nothing in between rebinds)."""
            for idx, s0 in enumerate(list(stmts)):
                if not (isinstance(s0, ast.Assign) and len(s0.targets) == 1 and isinstance(s0.targets[0], ast.Name) and isinstance(s0.value, ast.Call)):
                    continue
                hg0, _ = me.match_call(s0.value, cls, helpers)
                if hg0 is None or hg0 is fn or not any(isinstance(x, (ast.Yield, ast.YieldFrom)) for x in ast.walk(hg0)):
                    continue
                gname = s0.targets[0].id
                occ = [n for n in ast.walk(fn) if isinstance(n, ast.Name) and n.id == gname]
                if len(occ) != 2:
                    continue
                use = [n for n in occ if n is not s0.targets[0]][0]
                loop = None
                for t in stmts[idx + 1:]:
                    if isinstance(t, ast.For) and (t.iter is use or (isinstance(t.iter, ast.Call) and isinstance(t.iter.func, ast.Name) and
                                                                    t.iter.func.id == "enumerate" and t.iter.args and t.iter.args[0] is use)):
                        loop = t
                        break
                if loop is None:
                    continue
                args = list(s0.value.args) + [kw_.value for kw_ in s0.value.keywords]
                if not all(simple_arg(a) for a in args):
                    continue
                rd = {n.id for a in args for n in ast.walk(a) if isinstance(n, ast.Name)}
                between = stmts[idx + 1:stmts.index(loop)]
                if any(isinstance(n, ast.Name) and n.id in rd and isinstance(n.ctx, ast.Store) for t in between for n in ast.walk(t)) or \
                        any("<state>" in writes_of(t) for t in between):
                    continue
                if loop.iter is use:
                    loop.iter = s0.value
                else:
                    loop.iter.args[0] = s0.value
                stmts.remove(s0)
                changed[0] = True
            return stmts

        def in_block(stmts):
            out = []
            stmts = forward_generator_objects(list(stmts))
            for s in stmts:
                # X.extend(E for v in IT)  ->  for v in IT: X.append(E)      (E does not read X; no filter-free restriction needed)
                if isinstance(s, ast.Expr) and isinstance(s.value, ast.Call) and isinstance(s.value.func, ast.Attribute) and \
                        s.value.func.attr == "extend" and len(s.value.args) == 1 and not s.value.keywords and \
                        isinstance(s.value.args[0], (ast.GeneratorExp, ast.ListComp)) and len(s.value.args[0].generators) == 1 and \
                        not s.value.args[0].generators[0].is_async and simple_arg(s.value.func.value):
                    comp = s.value.args[0]
                    g = comp.generators[0]
                    xs = src(s.value.func.value)
                    calls_helper = any(isinstance(c, ast.Call) and me.match_call(c, cls, helpers)[0] is not None for c in ast.walk(comp))
                    if calls_helper and xs not in src(comp.elt) and not any(xs in src(c) for c in g.ifs) and xs not in src(g.iter):
                        app = ast.Expr(value=ast.Call(func=ast.Attribute(value=s.value.func.value, attr="append", ctx=ast.Load()), args=[comp.elt], keywords=[]))
                        body = [app]
                        for c in reversed(g.ifs):
                            body = [ast.If(test=c, body=body, orelse=[])]
                        loop = ast.For(target=g.target, iter=g.iter, body=body, orelse=[])
                        ast.copy_location(loop, s)
                        ast.fix_missing_locations(loop)
                        s = loop
                        changed[0] = True
                # T = functools.reduce(F, IT, INIT)  ->  acc = INIT; for k in IT: acc = F(acc, k); T = acc     (the definition of reduce)
                rc = s.value if isinstance(s, (ast.Assign, ast.Return)) and isinstance(getattr(s, "value", None), ast.Call) else None
                if rc is not None and src(rc.func) in me.reduce_names and len(rc.args) == 3 and not rc.keywords and \
                        isinstance(rc.args[0], (ast.Name, ast.Attribute)) and \
                        (isinstance(s, ast.Return) or (len(s.targets) == 1 and isinstance(s.targets[0], ast.Name))) and \
                        me.match_call(ast.Call(func=rc.args[0], args=[], keywords=[]), cls, helpers)[0] is not None:
                    # (only for the repository's own new helpers / closures: a reduction by a library function such as np.maximum
                    # stays a reduction, which the summariser reads directly)
                    me.counter += 1
                    acc, kv = "__acc%d" % me.counter, "__k%d" % me.counter
                    init = ast.Assign(targets=[ast.Name(id=acc, ctx=ast.Store())], value=rc.args[2])
                    step = ast.Assign(targets=[ast.Name(id=acc, ctx=ast.Store())], value=ast.Call(
                        func=rc.args[0], args=[ast.Name(id=acc, ctx=ast.Load()), ast.Name(id=kv, ctx=ast.Load())], keywords=[]))
                    loop = ast.For(target=ast.Name(id=kv, ctx=ast.Store()), iter=rc.args[1], body=[step], orelse=[])
                    s.value = ast.Name(id=acc, ctx=ast.Load())
                    for t in (init, loop):
                        ast.copy_location(t, s)
                        ast.fix_missing_locations(t)
                    ast.fix_missing_locations(s)
                    out.extend(in_block([init, loop]))
                    changed[0] = True
                # for i, v in enumerate(self._gen(..)[, start]): BODY  ->  n = start; for v in self._gen(..): i = n; BODY; n += 1
                # (BODY without `continue`, so the counter is advanced on every iteration)
                if isinstance(s, ast.For) and isinstance(s.iter, ast.Call) and isinstance(s.iter.func, ast.Name) and s.iter.func.id == "enumerate" and \
                        1 <= len(s.iter.args) <= 2 and all(kw_.arg == "start" for kw_ in s.iter.keywords) and isinstance(s.target, ast.Tuple) and \
                        len(s.target.elts) == 2 and isinstance(s.target.elts[0], ast.Name) and isinstance(s.iter.args[0], ast.Call) and not s.orelse:
                    hg2, _m2 = me.match_call(s.iter.args[0], cls, helpers)
                    if hg2 is not None and hg2 is not fn and any(isinstance(x, (ast.Yield, ast.YieldFrom)) for x in ast.walk(hg2)) and \
                            not any(isinstance(x, ast.Continue) for b_ in s.body for x in ast.walk(b_)):
                        me.counter += 1
                        cn = "__pos%d" % me.counter
                        start = s.iter.args[1] if len(s.iter.args) == 2 else (s.iter.keywords[0].value if s.iter.keywords else ast.Constant(value=0))
                        init0 = ast.Assign(targets=[ast.Name(id=cn, ctx=ast.Store())], value=start)
                        bind = ast.Assign(targets=[s.target.elts[0]], value=ast.Name(id=cn, ctx=ast.Load()))
                        inc = ast.AugAssign(target=ast.Name(id=cn, ctx=ast.Store()), op=ast.Add(), value=ast.Constant(value=1))
                        s.iter = s.iter.args[0]
                        s.target = s.target.elts[1]
                        s.body = [bind] + s.body + [inc]
                        for t_ in (init0, bind, inc):
                            ast.copy_location(t_, s)
                            ast.fix_missing_locations(t_)
                        ast.fix_missing_locations(s)
                        out.append(init0)
                        changed[0] = True
                # for v in map(self._helper, X): BODY  ->  for m in X: v = self._helper(m); BODY   (map is lazy: same order of calls)
                if isinstance(s, ast.For) and isinstance(s.iter, ast.Call) and isinstance(s.iter.func, ast.Name) and s.iter.func.id == "map" and \
                        len(s.iter.args) == 2 and not s.iter.keywords and isinstance(s.iter.args[0], (ast.Attribute, ast.Name)):
                    probe = ast.Call(func=s.iter.args[0], args=[ast.Name(id="__probe", ctx=ast.Load())], keywords=[])
                    hm, _m = me.match_call(probe, cls, helpers)
                    if hm is not None and hm is not fn:
                        me.counter += 1
                        mv = "__elem%d" % me.counter
                        first = ast.Assign(targets=[s.target], value=ast.Call(func=s.iter.args[0], args=[ast.Name(id=mv, ctx=ast.Load())], keywords=[]))
                        s.target = ast.Name(id=mv, ctx=ast.Store())
                        s.iter = s.iter.args[1]
                        s.body = [first] + s.body
                        ast.copy_location(first, s)
                        ast.fix_missing_locations(s)
                        changed[0] = True
                # x = list(self._gen(..))  ->  x = []; for e in self._gen(..): x.append(e)
                if isinstance(s, ast.Assign) and len(s.targets) == 1 and isinstance(s.targets[0], ast.Name) and \
                        isinstance(s.value, ast.Call) and isinstance(s.value.func, ast.Name) and s.value.func.id == "list" and \
                        len(s.value.args) == 1 and not s.value.keywords and isinstance(s.value.args[0], ast.Call):
                    hg, _m = me.match_call(s.value.args[0], cls, helpers)
                    if hg is not None and hg is not fn and any(isinstance(x, (ast.Yield, ast.YieldFrom)) for x in ast.walk(hg)):
                        me.counter += 1
                        ev = "__item%d" % me.counter
                        x = s.targets[0].id
                        init = ast.Assign(targets=[ast.Name(id=x, ctx=ast.Store())], value=ast.List(elts=[], ctx=ast.Load()))
                        loop = ast.For(target=ast.Name(id=ev, ctx=ast.Store()), iter=s.value.args[0], orelse=[], body=[ast.Expr(value=ast.Call(
                            func=ast.Attribute(value=ast.Name(id=x, ctx=ast.Load()), attr="append", ctx=ast.Load()),
                            args=[ast.Name(id=ev, ctx=ast.Load())], keywords=[]))])
                        for t in (init, loop):
                            ast.copy_location(t, s)
                            ast.fix_missing_locations(t)
                        g = me.inline_generator_loop(loop, cls, helpers, fn)
                        if g is not None:
                            out.append(init)
                            out.extend(in_block(g))
                            changed[0] = True
                            continue
                g = me.inline_generator_loop(s, cls, helpers, fn)
                if g is not None:
                    out.extend(in_block(g))
                    changed[0] = True
                    continue
                # recurse into compound statements first
                for field in ("body", "orelse", "finalbody"):
                    b = getattr(s, field, None)
                    if isinstance(b, list) and b and isinstance(b[0], ast.stmt):
                        setattr(s, field, in_block(b))
                call = None
                kind = None
                hoisted = me.hoist_nested(s, cls, helpers, fn)
                if hoisted is not None:
                    # `__hoistN = helper(..)` now precedes the statement; handle both in order
                    out.extend(in_block([hoisted]))
                    changed[0] = True
                if isinstance(s, ast.Expr) and isinstance(s.value, ast.Call):
                    call, kind = s.value, "expr"
                elif isinstance(s, (ast.Assign, ast.AugAssign, ast.AnnAssign)) and isinstance(s.value, ast.Call):
                    call, kind = s.value, "assign"
                elif isinstance(s, ast.Return) and isinstance(s.value, ast.Call):
                    call, kind = s.value, "return"
                if call is not None:
                    h, is_m = me.match_call(call, cls, helpers)
                    if h is not None and h is not fn:
                        inst = me.instantiate(h, is_m, call)
                        if inst is not None:
                            body, ret = inst
                            if kind == "expr" and isinstance(ret, ast.Name):
                                body = drop_result_stores(body, ret.id)
                                for x in body:
                                    ast.fix_missing_locations(x)
                            out.extend(body)
                            if kind == "expr":
                                pass
                            else:
                                s.value = ret if ret is not None else ast.Constant(value=None)
                                ast.fix_missing_locations(s)
                                out.append(s)
                            changed[0] = True
                            me.inlined.append("%s -> %s" % (h.name, fn.name))
                            continue
                # expression-level inlining of single-return helpers
                s2 = me.inline_exprs(s, fn, cls, helpers, changed)
                out.append(s2)
            return out
        fn.body = in_block(fn.body)
        if self.local_helpers:
            for name, st in list(self.local_helpers.items()):
                refs = [n for n in ast.walk(fn) if isinstance(n, ast.Name) and n.id == name and not any(n is x for x in ast.walk(st))]
                if not refs and st in fn.body:
                    fn.body.remove(st)
            self.local_helpers = {}
        return changed[0]

    def inline_exprs(self, stmt, fn, cls, helpers, changed):
        me = self

        class T(ast.NodeTransformer):
            def visit_Call(self, n):
                self.generic_visit(n)
                h, is_m = me.match_call(n, cls, helpers)
                if h is None or h is fn:
                    return n
                shape = helper_shape(h)
                if shape is None or shape[0] or shape[1] is None:
                    return n
                b = me.bind(h, is_m, n)
                if b is None:
                    return n
                params, vals = b
                if not all(simple_arg(vals[p]) for p in params):
                    # only substitute when every argument is cheap and pure, otherwise keep the call
                    uses = {p: sum(1 for x in ast.walk(shape[1]) if isinstance(x, ast.Name) and x.id == p) for p in params}
                    if any(uses[p] > 1 and not simple_arg(vals[p]) for p in params):
                        return n
                new = _Rename({}, {p: vals[p] for p in params}).visit(copy.deepcopy(shape[1]))
                changed[0] = True
                me.inlined.append("%s -> %s (expr)" % (h.name, fn.name))
                return ast.copy_location(new, n)

            def visit_FunctionDef(self, n):
                return n
        # only the statement's own expressions (nested blocks were handled by the caller)
        for field, val in ast.iter_fields(stmt):
            if field in ("body", "orelse", "finalbody", "handlers"):
                continue
            if isinstance(val, ast.AST):
                setattr(stmt, field, T().visit(val))
            elif isinstance(val, list):
                setattr(stmt, field, [T().visit(v) if isinstance(v, ast.AST) else v for v in val])
        ast.fix_missing_locations(stmt)
        return stmt


# ---------------------------------------------------------------------------
# N2 guard clauses


def negate(test):
    if isinstance(test, ast.UnaryOp) and isinstance(test.op, ast.Not):
        return test.operand
    if isinstance(test, ast.Compare) and len(test.ops) == 1:
        neg = {ast.Is: ast.IsNot, ast.IsNot: ast.Is, ast.Eq: ast.NotEq, ast.NotEq: ast.Eq, ast.Lt: ast.GtE, ast.GtE: ast.Lt,
               ast.Gt: ast.LtE, ast.LtE: ast.Gt, ast.In: ast.NotIn, ast.NotIn: ast.In}
        op = neg.get(type(test.ops[0]))
        if op is not None and type(test.ops[0]) in (ast.Is, ast.IsNot, ast.In, ast.NotIn):
            return ast.copy_location(ast.Compare(left=test.left, ops=[op()], comparators=test.comparators), test)
    return ast.copy_location(ast.UnaryOp(op=ast.Not(), operand=test), test)


def guard_clauses(fn):
    n_changed = [0]

    def fix_loop_body(stmts):
        out = []
        for i, s in enumerate(stmts):
            fix_children(s)
            if isinstance(s, ast.If) and not s.orelse and s.body and isinstance(s.body[-1], ast.Continue) and i + 1 < len(stmts):
                rest = fix_loop_body(stmts[i + 1:])
                head = s.body[:-1]
                if any(isinstance(x, (ast.Break, ast.Continue)) for h in head for x in ast.walk(h)):
                    out.append(s)
                    continue
                n_changed[0] += 1
                if head:
                    new = ast.If(test=s.test, body=head, orelse=rest)
                else:
                    new = ast.If(test=negate(s.test), body=rest, orelse=[])
                ast.copy_location(new, s)
                ast.fix_missing_locations(new)
                out.append(new)
                return out
            out.append(s)
        return out

    def fix_children(s):
        if isinstance(s, (ast.For, ast.While)):
            s.body = fix_loop_body(s.body)
            for x in s.orelse:
                fix_children(x)
        else:
            for field in ("body", "orelse"):
                b = getattr(s, field, None)
                if isinstance(b, list) and b and isinstance(b[0], ast.stmt):
                    for x in b:
                        fix_children(x)
    for s in fn.body:
        fix_children(s)
    return n_changed[0]


# ---------------------------------------------------------------------------
# N3 new temporaries


def pure_expr(e):
    for n in ast.walk(e):
        if isinstance(n, ast.Call):
            name = src(n.func)
            if name.startswith(IMPURE_NP):
                return False
            if name.startswith(PURE_NS):
                continue
            if isinstance(n.func, ast.Name) and n.func.id in PURE_CALL_NAMES:
                continue
            if isinstance(n.func, ast.Attribute) and n.func.attr.startswith("get_"):
                continue
            if isinstance(n.func, ast.Attribute) and n.func.attr in ("not_opened",):
                continue
            return False
        if isinstance(n, (ast.GeneratorExp, ast.Lambda, ast.Yield, ast.Await, ast.NamedExpr, ast.List, ast.Dict, ast.Set)):
            return False        # (a list comprehension of pure parts is pure and, substituted once, builds an equal list)
    return True


MULTIPLY_DEFINED = [set()]     # method names defined in more than one class of the analysed packages
REBOUND = [None]      # attribute names rebound through `self.<attr> = ...` outside __init__ anywhere in the analysed packages


def is_const_attr(n):
    """self.<attr> where <attr> is assigned in constructors only: the attribute always denotes the same object."""
    return REBOUND[0] is not None and isinstance(n, ast.Attribute) and isinstance(n.value, ast.Name) and n.value.id == "self" and \
        n.attr not in REBOUND[0]


STABLE = [set()]       # attributes of self that no method reachable from the function being normalised rebinds


def stable_attrs(cls_node, fn):
    """self.<attr> that cannot be rebound by a self.method() call made from fn: none of the class's methods reachable from fn
    through self-calls (fn itself excluded - its own stores are seen directly) stores the attribute."""
    if cls_node is None:
        return set()
    methods = {f.name: f for f in cls_node.body if isinstance(f, ast.FunctionDef)}
    def callees(f):
        out = set()
        for n in ast.walk(f):
            if isinstance(n, ast.Attribute) and isinstance(n.value, ast.Name) and n.value.id in ("self", cls_node.name) and n.attr in methods:
                out.add(n.attr)
        return out
    reach, todo = set(), list(callees(fn))
    while todo:
        m = todo.pop()
        if m in reach:
            continue
        reach.add(m)
        todo += list(callees(methods[m]))
    unknown_bases = bool(cls_node.bases) and any(src(b) not in ("Algorithm", "ABC", "object", "P_node", "Partition") for b in cls_node.bases)
    rebound = set()
    for m in reach:
        for n in ast.walk(methods[m]):
            if isinstance(n, ast.Attribute) and isinstance(n.ctx, (ast.Store, ast.Del)) and isinstance(n.value, ast.Name) and n.value.id == "self":
                rebound.add(n.attr)
    # calls of inherited methods that are not defined in this class: be conservative
    inherited_calls = False
    for m in [fn] + [methods[x] for x in reach]:
        for n in ast.walk(m):
            if isinstance(n, ast.Call) and isinstance(n.func, ast.Attribute) and isinstance(n.func.value, ast.Name) and n.func.value.id == "self" \
                    and n.func.attr not in methods:
                inherited_calls = True
    if inherited_calls and unknown_bases:
        return set()
    attrs = set()
    for n in ast.walk(fn):
        if isinstance(n, ast.Attribute) and isinstance(n.value, ast.Name) and n.value.id == "self":
            attrs.add(n.attr)
    return {a for a in attrs if a not in rebound and a not in methods}


def reads(e):
    out = set()
    skip = set()
    for n in ast.walk(e):
        if id(n) in skip:
            continue
        if is_const_attr(n):
            skip.add(id(n.value))
            continue
        if isinstance(n, ast.Attribute) and isinstance(n.value, ast.Name) and n.value.id == "self" and n.attr in STABLE[0]:
            out.add(src(n))
            skip.add(id(n.value))
            continue
        if isinstance(n, ast.Name):
            out.add(n.id)
        elif isinstance(n, ast.Attribute):
            try:
                out.add(src(n))
            except Exception:
                pass
        elif isinstance(n, ast.Subscript):
            # an element read depends on the container's contents: changed by a store / mutator call through the same
            # container expression (matched by text), by a call of an own method that (transitively) mutates that attribute's
            # container, by tree growth (make_children / deepen, for any container - the layers and child lists grow), or by
            # a call of an unknown plain function ('<heap>')
            out.add("<heap>")
            if not stable_index(n.slice):
                out.add("<heap:TREE>")
            try:
                out.add(src(n.value))
                out.add("<heap:%s>" % src(n.value))
            except Exception:
                pass
        elif isinstance(n, ast.Call):
            name = src(n.func)
            if (name.startswith(PURE_NS) and not name.startswith(IMPURE_NP)) or (isinstance(n.func, ast.Name) and n.func.id in PURE_CALL_NAMES):
                continue
            if name.startswith(IMPURE_NP):
                out.add("<rng>")
                continue
            if isinstance(n.func, ast.Attribute) and n.func.attr.startswith("get_") and not n.args and not n.keywords and REBOUND[0] is not None and \
                    n.func.attr[4:] not in REBOUND[0] and is_const_attr(n.func.value):
                skip.add(id(n.func))
                continue        # getter of a constructor-only field of a constructor-only attribute: always the same object
            if isinstance(n.func, ast.Attribute) and n.func.attr in ("get_depth", "get_node_list", "get_root", "get_layer_node_list") and \
                    isinstance(n.func.value, ast.Attribute) and isinstance(n.func.value.value, ast.Name) and n.func.value.value.id == "self" and \
                    n.func.value.attr == "partition" and not n.keywords and len(n.args) <= 1:
                # the partition's own state (depth, layer table) changes only when the tree grows (C03's who-may-write rule)
                out.add("<heap:TREE>")
                skip.add(id(n.func))
                continue
            # the result of a getter depends on the object's state: represent by a pseudo-location
            out.add("<state>")
    return out


def stable_index(sl):
    """An index that keeps denoting the same element while the tree grows: the tree's lists (layers, layer table, child lists,
    learner lists) are append-only (C03's R03-OWN / step rules), so a non-negative position is stable; positions counted from
    the end (negative, len()-based) and slices are not."""
    if isinstance(sl, ast.Slice):
        return False
    for x in ast.walk(sl):
        if isinstance(x, ast.UnaryOp) and isinstance(x.op, ast.USub):
            return False
        if isinstance(x, ast.Constant) and isinstance(x.value, (int, float)) and x.value < 0:
            return False
        if isinstance(x, ast.Call):
            return False
    return True


IMPORTABLE_HELPERS = [{}]  # file -> {function name: FunctionDef} of NEW module-level functions (importable by other modules)


def collect_importable_helpers(parsed, vocab):
    out = {}
    for file, tree in parsed.items():
        known = set(vocab.get(file, {"functions": {}})["functions"])
        fs = {n.name: n for n in tree.body if isinstance(n, ast.FunctionDef) and n.name not in known}
        if fs:
            out[file] = fs
    return out


INHERITED_HELPERS = [{}]   # class name -> {method name: FunctionDef} of NEW methods defined in a base class (any analysed file)


def collect_inherited_helpers(parsed, vocab):
    """For every class: the new (non-baseline) methods of its base classes, found through the class names of the analysed
    packages; a method name that is defined in more than one class anywhere is left out (it may be an override)."""
    classes = {}
    for file, tree in parsed.items():
        for c in tree.body:
            if isinstance(c, ast.ClassDef):
                classes.setdefault(c.name, (file, c))
    multi = collect_multiply_defined(list(parsed.values()))
    out = {}
    for name, (file, c) in classes.items():
        seen, todo, found = set(), [b.id for b in c.bases if isinstance(b, ast.Name)], {}
        while todo:
            b = todo.pop(0)
            if b in seen or b not in classes:
                continue
            seen.add(b)
            bfile, bc = classes[b]
            known = set((vocab.get(bfile, {"classes": {}})["classes"].get(b) or {}))
            for f in bc.body:
                if isinstance(f, ast.FunctionDef) and f.name not in known and not f.name.startswith("__") and f.name not in multi and f.name not in found:
                    found[f.name] = f
            todo.extend(x.id for x in bc.bases if isinstance(x, ast.Name))
        if found:
            out[name] = found
    return out


def collect_multiply_defined(trees):
    """Method names whose call through `self` may be dispatched to another definition: a method defined in a class AND in one of
    its descendants or ancestors (an override).  Two unrelated classes defining a method of the same name are no hazard: in the
    methods of either class, self.m() can only mean its own m (or a descendant's, and there is none)."""
    classes = {}
    for tree in trees:
        for c in tree.body:
            if isinstance(c, ast.ClassDef):
                classes.setdefault(c.name, c)

    def ancestors(name, seen=None):
        seen = seen or set()
        c = classes.get(name)
        if c is None:
            return seen
        for b in c.bases:
            bn = b.id if isinstance(b, ast.Name) else (b.attr if isinstance(b, ast.Attribute) else None)
            if bn and bn not in seen:
                seen.add(bn)
                ancestors(bn, seen)
        return seen
    defs = {}
    for name, c in classes.items():
        for f in c.body:
            if isinstance(f, ast.FunctionDef):
                defs.setdefault(f.name, set()).add(name)
    out = set()
    for m, cs in defs.items():
        if len(cs) < 2:
            continue
        for a in cs:
            anc = ancestors(a)
            if anc & cs:
                out.add(m)
                break
    return out


def collect_rebound(trees):
    out = set()
    for tree in trees:
        for c in ast.walk(tree):
            if not isinstance(c, ast.ClassDef):
                continue
            for f in c.body:
                if not isinstance(f, ast.FunctionDef) or f.name == "__init__":
                    continue
                for n in ast.walk(f):
                    if isinstance(n, ast.Attribute) and isinstance(n.ctx, (ast.Store, ast.Del)) and isinstance(n.value, ast.Name) and n.value.id == "self":
                        out.add(n.attr)
    return out


def writes_of(stmt):
    """Names / attribute chains a statement may modify (conservative); '<state>' for any call that is not pure."""
    out = set()
    for n in ast.walk(stmt):
        if isinstance(n, ast.Name) and isinstance(n.ctx, ast.Store):
            out.add(n.id)
        elif isinstance(n, ast.Attribute) and isinstance(n.ctx, ast.Store):
            out.add(src(n))
            out.add("<state>")
        elif isinstance(n, ast.Subscript) and isinstance(n.ctx, ast.Store):
            out.add("<state>")
            b = n.value
            while isinstance(b, (ast.Subscript,)):
                b = b.value
            try:
                out.add(src(b))
            except Exception:
                pass
        elif isinstance(n, ast.Call):
            name = src(n.func)
            if name.startswith(PURE_NS) and not name.startswith(IMPURE_NP):
                continue
            if name.startswith(IMPURE_NP):
                out.add("<rng>")        # a draw advances numpy's generator and nothing else
                continue
            if isinstance(n.func, ast.Name) and n.func.id in PURE_CALL_NAMES:
                continue
            if isinstance(n.func, ast.Attribute) and (n.func.attr.startswith("get_") or n.func.attr in ("not_opened",)):
                continue
            out.add("<state>")
            if isinstance(n.func, ast.Attribute):
                m = n.func.attr
                b = n.func.value
                while isinstance(b, ast.Subscript):
                    b = b.value
                try:
                    out.add(src(b))
                except Exception:
                    pass
                if m in TREE_GROWERS:
                    out.add("<heap:TREE>")
                if m in CONTAINER_MUTATORS:
                    try:
                        out.add("<heap:%s>" % src(n.func.value))
                    except Exception:
                        pass
                if isinstance(n.func.value, ast.Name) and n.func.value.id == "self":
                    attrs, grows = CONTAINER_WRITES[0].get(m, (None, True))
                    if grows:
                        out.add("<heap:TREE>")
                    if attrs is None:
                        out.add("<heap>")           # inherited / unknown own method
                    else:
                        for a in attrs:
                            out.add("<heap:self.%s>" % a)
            else:
                out.add("<heap>")
                out.add("<heap:TREE>")
    return out


TREE_GROWERS = {"make_children", "deepen", "expand", "update_children"}
CONTAINER_MUTATORS = {"append", "extend", "insert", "pop", "remove", "sort", "reverse", "clear", "update", "setdefault", "popitem", "add", "discard"}
CONTAINER_WRITES = [{}]     # own method name -> (attributes whose containers it may mutate, may grow the tree), transitive over self-calls


def container_writes(cls_node):
    methods = {f.name: f for f in cls_node.body if isinstance(f, ast.FunctionDef)}
    direct = {}
    calls = {}
    for name, f in methods.items():
        attrs, grows, cs = set(), False, set()
        for n in ast.walk(f):
            if isinstance(n, ast.Subscript) and isinstance(n.ctx, (ast.Store, ast.Del)):
                b = n.value
                while isinstance(b, ast.Subscript):
                    b = b.value
                if isinstance(b, ast.Attribute) and isinstance(b.value, ast.Name) and b.value.id == "self":
                    attrs.add(b.attr)
            if isinstance(n, ast.Call) and isinstance(n.func, ast.Attribute):
                m = n.func.attr
                if m in TREE_GROWERS:
                    grows = True
                r = n.func.value
                while isinstance(r, ast.Subscript):
                    r = r.value
                if m in CONTAINER_MUTATORS and isinstance(r, ast.Attribute) and isinstance(r.value, ast.Name) and r.value.id == "self":
                    attrs.add(r.attr)
                if isinstance(n.func.value, ast.Name) and n.func.value.id == "self":
                    cs.add(m)
        direct[name] = (attrs, grows)
        calls[name] = cs
    out = {}
    for name in methods:
        seen, todo = set(), [name]
        attrs, grows = set(), False
        unknown = False
        while todo:
            m = todo.pop()
            if m in seen:
                continue
            seen.add(m)
            if m not in methods:
                unknown = True
                continue
            attrs |= direct[m][0]
            grows |= direct[m][1]
            todo += list(calls[m])
        out[name] = (None if unknown else attrs, grows or unknown)
    return out


def _mentions_name(t, name):
    return any(isinstance(n, ast.Name) and n.id == name for n in ast.walk(t))


def _uses_safe(stmts, name, deps):
    """Every use of `name` in the statement list is evaluated before anything the list does can change `deps`."""
    idxs = [k for k, t in enumerate(stmts) if _mentions_name(t, name)]
    if not idxs:
        return True
    last = idxs[-1]
    for k, t in enumerate(stmts[:last + 1]):
        if not (writes_of(t) & deps):
            continue        # nothing here touches the inputs (re-evaluation of a pure expression inside a loop is harmless)
        if k < last:
            return False
        return _last_use_safe(t, name, deps)
    return True


def _last_use_safe(t, name, deps):
    if isinstance(t, ast.If):
        if writes_of(ast.Expr(value=t.test)) & deps:
            return False
        return _uses_safe(t.body, name, deps) and _uses_safe(t.orelse, name, deps)
    if isinstance(t, ast.For):
        inside_head = {id(x) for x in ast.walk(t.iter)}
        uses_t = [x for x in ast.walk(t) if isinstance(x, ast.Name) and x.id == name]
        return bool(uses_t) and all(id(x) in inside_head for x in uses_t) and not (writes_of(ast.Expr(value=t.iter)) & deps)
    if isinstance(t, (ast.Assign, ast.AugAssign, ast.Return, ast.Expr)):
        # every use is evaluated before the write takes effect: the right-hand side of an assignment, or the arguments of
        # the statement's single state-changing call
        impure = [x for x in ast.walk(t) if isinstance(x, ast.Call) and "<state>" in writes_of(ast.Expr(value=x))]
        if not impure:
            if isinstance(t, (ast.Assign, ast.AugAssign)):
                tg = t.targets if isinstance(t, ast.Assign) else [t.target]
                if any(_mentions_name(x, name) for x in tg):
                    return False        # used inside the store target (index): evaluated after the value, still before the store
            return True
        if len(impure) == 1:
            inside_args = set()
            for a in list(impure[0].args) + [k.value for k in impure[0].keywords]:
                for x in ast.walk(a):
                    inside_args.add(id(x))
            uses_t = [x for x in ast.walk(t) if isinstance(x, ast.Name) and x.id == name]
            return bool(uses_t) and all(id(x) in inside_args for x in uses_t)
    return False


def _arith_only(e):
    """Arithmetic over simple operands and np./math. functions (an argument expression the inliner had to bind to a temporary only
    because it is not a plain designator)."""
    for n in ast.walk(e):
        if isinstance(n, ast.Call):
            name = src(n.func)
            if not (name.startswith("math.") or name in ("np.ceil", "np.floor", "np.sqrt", "np.log", "np.log2", "np.exp", "np.abs", "np.minimum",
                                                         "np.maximum", "np.power", "np.cos", "np.sin", "abs", "min", "max", "int", "float", "len")):
                return False        # (scalar functions only: np.array(..) and friends build objects)
            if n.keywords:
                return False
        elif not isinstance(n, (ast.BinOp, ast.UnaryOp, ast.Name, ast.Attribute, ast.Constant, ast.Subscript, ast.operator, ast.unaryop, ast.expr_context)):
            return False
    return True


def substitute_new_temps(fn, known_locals):
    """Forward-substitute single-assignment new locals within one statement list (straight-line region)."""
    n_sub = [0]

    def process(stmts):
        i = 0
        while i < len(stmts):
            s = stmts[i]
            for field in ("body", "orelse"):
                b = getattr(s, field, None)
                if isinstance(b, list) and b and isinstance(b[0], ast.stmt):
                    process(b)
            if isinstance(s, ast.Assign) and len(s.targets) == 1 and isinstance(s.targets[0], ast.Name) \
                    and s.targets[0].id not in known_locals and pure_expr(s.value) and \
                    (not s.targets[0].id.startswith("__") or ((simple_arg(s.value) or _arith_only(s.value)) and not isinstance(s.value, (ast.Constant, ast.Name)))):
                name = s.targets[0].id
                # single definition in the whole function, no augmented assignment
                defs = [n for n in ast.walk(fn) if isinstance(n, ast.Name) and n.id == name and isinstance(n.ctx, (ast.Store, ast.Del))]
                if len(defs) == 1:
                    # every use must be in the statements after s in this list (incl. nested), before any write to the inputs
                    deps = reads(s.value)
                    uses_elsewhere = [n for n in ast.walk(fn) if isinstance(n, ast.Name) and n.id == name and isinstance(n.ctx, ast.Load)]
                    later = stmts[i + 1:]
                    inside = [n for t in later for n in ast.walk(t) if isinstance(n, ast.Name) and n.id == name and isinstance(n.ctx, ast.Load)]
                    if uses_elsewhere and len(inside) == len(uses_elsewhere):
                        ok = _uses_safe(later, name, deps)
                        if ok and not simple_arg(s.value):
                            # a value that is built (not merely designated) has an identity: where the local is stored through or
                            # mutated (x[i] = .., x.attr = .., x.append(..)), it must stay one object
                            par_l = {}
                            for t in later:
                                for a_ in ast.walk(t):
                                    for c_ in ast.iter_child_nodes(a_):
                                        par_l[id(c_)] = a_
                            for u in inside:
                                p1 = par_l.get(id(u))
                                if isinstance(p1, (ast.Subscript, ast.Attribute)) and p1.value is u:
                                    if isinstance(p1.ctx, (ast.Store, ast.Del)):
                                        ok = False
                                    p2 = par_l.get(id(p1))
                                    if isinstance(p1, ast.Attribute) and isinstance(p2, ast.Call) and p2.func is p1 and \
                                            (p1.attr in CONTAINER_MUTATORS or p1.attr in ("fill", "resize", "put", "itemset")):
                                        ok = False
                                    # x[i][j] = ..: a store through a nested subscript
                                    q = p1
                                    while isinstance(par_l.get(id(q)), ast.Subscript) and par_l[id(q)].value is q:
                                        q = par_l[id(q)]
                                        if isinstance(q.ctx, (ast.Store, ast.Del)):
                                            ok = False
                        if ok:
                            val = s.value

                            class Sub(ast.NodeTransformer):
                                def visit_Name(self, n):
                                    if n.id == name and isinstance(n.ctx, ast.Load):
                                        return ast.copy_location(copy.deepcopy(val), n)
                                    return n
                            for k, t in enumerate(later):
                                later[k] = Sub().visit(t)
                                ast.fix_missing_locations(later[k])
                            stmts[i + 1:] = later
                            del stmts[i]
                            n_sub[0] += 1
                            continue
            i += 1
    process(fn.body)
    return n_sub[0]


def _blocks(fn):
    """Every statement list of the function (the lists themselves, so they can be edited in place)."""
    out = []
    stack = [fn]
    while stack:
        n = stack.pop()
        for field in ("body", "orelse", "finalbody"):
            b = getattr(n, field, None)
            if isinstance(b, list) and b and isinstance(b[0], ast.stmt):
                out.append(b)
                for x in b:
                    if not isinstance(x, (ast.FunctionDef, ast.ClassDef)):
                        stack.append(x)
        for h in getattr(n, "handlers", []) or []:
            stack.append(h)
    return out


def split_chained_assigns(fn):
    """self.A = x = E   (or  x = self.A = E)   ->   self.A = E; x = self.A      (one evaluation of E; both names denote that object)"""
    k = 0
    for blk in _blocks(fn):
        i = 0
        while i < len(blk):
            st = blk[i]
            if isinstance(st, ast.Assign) and len(st.targets) == 2:
                attrs = [t for t in st.targets if isinstance(t, ast.Attribute) and isinstance(t.value, ast.Name) and t.value.id == "self"]
                names = [t for t in st.targets if isinstance(t, ast.Name)]
                if len(attrs) == 1 and len(names) == 1:
                    first = ast.Assign(targets=[attrs[0]], value=st.value)
                    load = ast.Attribute(value=ast.Name(id="self", ctx=ast.Load()), attr=attrs[0].attr, ctx=ast.Load())
                    second = ast.Assign(targets=[names[0]], value=load)
                    for t in (first, second):
                        ast.copy_location(t, st)
                        ast.fix_missing_locations(t)
                    blk[i:i + 1] = [first, second]
                    k += 1
                    i += 1
            i += 1
    return k


def split_tuple_assigns(fn):
    """N0: `a, b = x, y` -> `a = x; b = y` when no right-hand side reads (or can be affected by storing) an earlier target."""
    k = 0
    for b in _blocks(fn):
        i = 0
        while i < len(b):
            s = b[i]
            if isinstance(s, ast.Assign) and len(s.targets) == 1 and isinstance(s.targets[0], ast.Tuple) and \
                    isinstance(s.value, (ast.Tuple, ast.List)) and len(s.targets[0].elts) == len(s.value.elts) and \
                    not any(isinstance(x, ast.Starred) for x in s.targets[0].elts + s.value.elts):
                tg, vs = s.targets[0].elts, s.value.elts
                ok = True
                for j in range(1, len(vs)):
                    r = reads(vs[j])
                    for t in tg[:j]:
                        if isinstance(t, ast.Name):
                            if t.id in r:
                                ok = False
                        else:
                            if "<state>" in r or src(t) in r or any(src(t).startswith(x + "[") or src(t).startswith(x + ".") for x in r):
                                ok = False
                if ok:
                    new = []
                    for t, v in zip(tg, vs):
                        a = ast.Assign(targets=[t], value=v)
                        ast.copy_location(a, s)
                        ast.fix_missing_locations(a)
                        new.append(a)
                    b[i:i + 1] = new
                    i += len(new)
                    k += 1
                    continue
            i += 1
    return k


def while_true_breaks(fn):
    """N4: `while True: if c: break; REST` -> `while not c: REST` (repeated for several leading breaks)."""
    k = 0
    for w in [n for n in ast.walk(fn) if isinstance(n, ast.While)]:
        while isinstance(w.test, ast.Constant) and w.test.value is True or (w.body and _leading_break(w.body[0]) and not w.orelse and k < 0):
            if not (w.body and _leading_break(w.body[0])) or w.orelse or len(w.body) < 2:
                break
            c = w.body[0].test
            w.test = negate(c)
            w.body = w.body[1:]
            k += 1
            # further leading breaks are conjoined
            while len(w.body) >= 2 and _leading_break(w.body[0]):
                w.test = ast.BoolOp(op=ast.And(), values=[w.test, negate(w.body[0].test)])
                w.body = w.body[1:]
            ast.fix_missing_locations(w)
            break
    return k


def _leading_break(s):
    return isinstance(s, ast.If) and not s.orelse and len(s.body) == 1 and isinstance(s.body[0], ast.Break)


def count_loops(fn):
    """for v in itertools.count([a]): if c: break; REST  (no continue in REST, v not assigned in REST)  ->
       v = a; while not c: REST; v += 1"""
    k = 0
    for blk in _blocks(fn):
        for i, s in enumerate(blk):
            if not (isinstance(s, ast.For) and not s.orelse and isinstance(s.target, ast.Name) and isinstance(s.iter, ast.Call) and
                    src(s.iter.func) in ("itertools.count", "count") and len(s.iter.args) <= 1 and not s.iter.keywords):
                continue
            if not (s.body and _leading_break(s.body[0])):
                continue
            rest = s.body[1:]
            v = s.target.id
            if any(isinstance(x, ast.Continue) for t in rest for x in ast.walk(t)) or \
                    any(isinstance(x, ast.Name) and x.id == v and isinstance(x.ctx, ast.Store) for t in rest for x in ast.walk(t)):
                continue
            start = s.iter.args[0] if s.iter.args else ast.Constant(value=0)
            init = ast.Assign(targets=[ast.Name(id=v, ctx=ast.Store())], value=start)
            inc = ast.AugAssign(target=ast.Name(id=v, ctx=ast.Store()), op=ast.Add(), value=ast.Constant(value=1))
            w = ast.While(test=negate(s.body[0].test), body=rest + [inc], orelse=[])
            for t in (init, w):
                ast.copy_location(t, s)
                ast.fix_missing_locations(t)
            blk[i:i + 1] = [init, w]
            k += 1
            return k + count_loops(fn)
    return k


def counter_whiles(fn):
    """N5: `i = a` ... `while i < b: BODY; i += 1` -> `for i in range(a, b): BODY`."""
    k = 0
    for b in _blocks(fn):
        for idx, w in enumerate(b):
            if not (isinstance(w, ast.While) and not w.orelse and isinstance(w.test, ast.Compare) and len(w.test.ops) == 1 and
                    isinstance(w.test.left, ast.Name) and isinstance(w.test.ops[0], (ast.Lt, ast.LtE)) and len(w.body) >= 2):
                continue
            i = w.test.left.id
            last = w.body[-1]
            if not (isinstance(last, ast.AugAssign) and isinstance(last.op, ast.Add) and isinstance(last.target, ast.Name) and last.target.id == i and
                    isinstance(last.value, ast.Constant) and last.value.value == 1):
                continue
            body = w.body[:-1]
            if any(isinstance(x, ast.Name) and x.id == i and isinstance(x.ctx, (ast.Store, ast.Del)) for t in body for x in ast.walk(t)):
                continue
            if any(isinstance(x, ast.Continue) for t in body for x in ast.walk(t)):
                continue
            # initialisation: the closest preceding statement of this block that writes i must be `i = a` with nothing in
            # between that reads i
            init = None
            for j in range(idx - 1, -1, -1):
                t = b[j]
                if isinstance(t, ast.Assign) and len(t.targets) == 1 and isinstance(t.targets[0], ast.Name) and t.targets[0].id == i:
                    init = j
                    break
                if any(isinstance(x, ast.Name) and x.id == i for x in ast.walk(t)):
                    break
            if init is None:
                continue
            bound = w.test.comparators[0]
            a = b[init].value
            deps = reads(bound)
            if i in deps or i in reads(a):
                continue
            if any(writes_of(t) & deps for t in body) or any(writes_of(t) & reads(a) for t in b[init + 1:idx]):
                continue
            # i must not be read after the loop (a for loop leaves the last value, the while loop leaves the bound)
            after = False
            loop_ids = {id(x) for x in ast.walk(w)}
            for x in ast.walk(fn):
                if isinstance(x, ast.Name) and x.id == i and isinstance(x.ctx, ast.Load) and id(x) not in loop_ids and \
                        (getattr(x, "lineno", 0), getattr(x, "col_offset", 0)) > (w.lineno, w.col_offset):
                    after = True
            if after:
                continue
            hi = bound if isinstance(w.test.ops[0], ast.Lt) else ast.BinOp(left=bound, op=ast.Add(), right=ast.Constant(value=1))
            args = [hi] if isinstance(a, ast.Constant) and a.value == 0 else [a, hi]
            f = ast.For(target=ast.Name(id=i, ctx=ast.Store()), iter=ast.Call(func=ast.Name(id="range", ctx=ast.Load()), args=args, keywords=[]),
                        body=body, orelse=[])
            ast.copy_location(f, w)
            ast.fix_missing_locations(f)
            b[idx] = f
            del b[init]
            k += 1
            return k + counter_whiles(fn)
    return k


def scalarise_tuple_temps(fn):
    """An inliner temporary T whose every definition is `T = (e1, .., ek)` and whose only use is `a1, .., ak = T`:
    each definition becomes k assignments T_i = e_i and the use becomes a_i = T_i."""
    k = 0
    names = {n.id for n in ast.walk(fn) if isinstance(n, ast.Name) and n.id.startswith("__")}
    for T in sorted(names):
        stores = []
        loads = []
        for b in _blocks(fn):
            for s in b:
                if isinstance(s, ast.Assign) and len(s.targets) == 1 and isinstance(s.targets[0], ast.Name) and s.targets[0].id == T:
                    stores.append((b, s))
                elif isinstance(s, ast.Assign) and isinstance(s.value, ast.Name) and s.value.id == T:
                    loads.append((b, s))
        n_store = sum(1 for n in ast.walk(fn) if isinstance(n, ast.Name) and n.id == T and isinstance(n.ctx, ast.Store))
        n_load = sum(1 for n in ast.walk(fn) if isinstance(n, ast.Name) and n.id == T and isinstance(n.ctx, ast.Load))
        if n_load != 1 or len(loads) != 1 or n_store != len(stores) or not stores:
            continue
        lb, ls = loads[0]
        if not (len(ls.targets) == 1 and isinstance(ls.targets[0], ast.Tuple)):
            continue
        ar = len(ls.targets[0].elts)
        if not all(isinstance(st.value, ast.Tuple) and len(st.value.elts) == ar for _, st in stores):
            continue
        for b, st in stores:
            new = [ast.Assign(targets=[ast.Name(id="%s_%d" % (T, j), ctx=ast.Store())], value=e) for j, e in enumerate(st.value.elts)]
            # simultaneous semantics: no element may read a component assigned earlier in this group (they are fresh names) - fine
            for x in new:
                ast.copy_location(x, st)
                ast.fix_missing_locations(x)
            b[b.index(st):b.index(st) + 1] = new
        new = [ast.Assign(targets=[t], value=ast.Name(id="%s_%d" % (T, j), ctx=ast.Load())) for j, t in enumerate(ls.targets[0].elts)]
        for x in new:
            ast.copy_location(x, ls)
            ast.fix_missing_locations(x)
        lb[lb.index(ls):lb.index(ls) + 1] = new
        k += 1
    return k


def rename_multi_def_temps(fn):
    """`x = __t` where this copy is the only read of the inliner temporary __t and x does not occur anywhere except after the
    copy: __t is x - rename every definition and drop the copy."""
    k = 0
    again = True
    while again:
        again = False
        for b in _blocks(fn):
            for i, s in enumerate(b):
                if isinstance(s, ast.Assign) and len(s.targets) == 1 and isinstance(s.targets[0], ast.Name) and isinstance(s.value, ast.Name) and \
                        s.value.id.startswith("__") and s.targets[0].id != s.value.id:
                    x, t = s.targets[0].id, s.value.id
                    loads = [n for n in ast.walk(fn) if isinstance(n, ast.Name) and n.id == t and isinstance(n.ctx, ast.Load)]
                    if len(loads) != 1:
                        continue
                    # region: the body of the innermost loop enclosing the copy (one iteration), else the whole function;
                    # every definition of t lies in the region, and inside the region x occurs only strictly after the copy
                    par = {}
                    for a in ast.walk(fn):
                        for c2 in ast.iter_child_nodes(a):
                            par[id(c2)] = a
                    region = fn
                    cur = s
                    while id(cur) in par:
                        cur = par[id(cur)]
                        if isinstance(cur, (ast.For, ast.While)):
                            region = cur
                            break
                    region_ids = {id(n) for n in ast.walk(region)}
                    if any(isinstance(n, ast.Name) and n.id == t and id(n) not in region_ids for n in ast.walk(fn)):
                        continue
                    after = []
                    cur = s
                    while cur is not region and id(cur) in par:
                        p2 = par[id(cur)]
                        for field in ("body", "orelse", "finalbody"):
                            blk = getattr(p2, field, None)
                            if isinstance(blk, list) and cur in blk:
                                after.extend(blk[blk.index(cur) + 1:])
                        cur = p2
                    ids_after = {id(n) for u in after for n in ast.walk(u)} | {id(s.targets[0])}
                    if any(isinstance(n, ast.Name) and n.id == x and id(n) not in ids_after for n in ast.walk(region)):
                        continue
                    if isinstance(region, ast.While) and any(isinstance(n, ast.Name) and n.id in (x, t) for n in ast.walk(region.test)):
                        continue
                    for n in ast.walk(fn):
                        if isinstance(n, ast.Name) and n.id == t:
                            n.id = x
                    del b[i]
                    k += 1
                    again = True
                    break
            if again:
                break
    return k


def sink_result_copies(fn):
    """if/else tree every path of which ends with `__t = E_k`, directly followed by `x = __t` (the only read of the inliner temporary
    __t): each path assigns x itself - `x = E_k` - and the copy is dropped (`x = x` disappears).  Nothing runs between the end of
    a path and the copy, so every E_k is evaluated in the same state and x receives the same value."""
    k = 0

    def leaves(stmts, t):
        if not stmts:
            return None
        last = stmts[-1]
        if isinstance(last, ast.Assign) and len(last.targets) == 1 and isinstance(last.targets[0], ast.Name) and last.targets[0].id == t:
            return [(stmts, len(stmts) - 1)]
        if isinstance(last, ast.If) and last.orelse:
            a, b = leaves(last.body, t), leaves(last.orelse, t)
            if a is None or b is None:
                return None
            return a + b
        return None
    again = True
    while again:
        again = False
        for b in _blocks(fn):
            for i in range(1, len(b)):
                s = b[i]
                if isinstance(s, ast.Return) and isinstance(s.value, ast.Name) and s.value.id.startswith("__") and isinstance(b[i - 1], ast.If):
                    # the same for `return __t`: every path returns its own value
                    t = s.value.id
                    lv = leaves([b[i - 1]], t)
                    if lv is None:
                        continue
                    leaf_ids = {id(blk[idx].targets[0]) for blk, idx in lv}
                    if any(id(n) not in leaf_ids and n is not s.value for n in ast.walk(fn) if isinstance(n, ast.Name) and n.id == t):
                        continue
                    for blk, idx in lv:
                        blk[idx] = ast.copy_location(ast.Return(value=blk[idx].value), blk[idx])
                    del b[i]
                    k += 1
                    again = True
                    break
                if not (isinstance(s, ast.Assign) and len(s.targets) == 1 and isinstance(s.targets[0], ast.Name) and isinstance(s.value, ast.Name) and
                        s.value.id.startswith("__") and s.targets[0].id != s.value.id and isinstance(b[i - 1], ast.If)):
                    continue
                x, t = s.targets[0].id, s.value.id
                lv = leaves([b[i - 1]], t)
                if lv is None:
                    continue
                leaf_ids = {id(blk[idx].targets[0]) for blk, idx in lv}
                occ = [n for n in ast.walk(fn) if isinstance(n, ast.Name) and n.id == t]
                if any(id(n) not in leaf_ids and n is not s.value for n in occ):
                    continue
                for blk, idx in lv:
                    st = blk[idx]
                    if isinstance(st.value, ast.Name) and st.value.id == x:
                        blk[idx:idx + 1] = [] if len(blk) > 1 else [ast.copy_location(ast.Pass(), st)]
                    else:
                        st.targets[0].id = x
                del b[i]
                # a branch that became empty
                t0 = b[i - 1]
                stack = [t0]
                while stack:
                    u = stack.pop()
                    if isinstance(u, ast.If):
                        if u.orelse and all(isinstance(z, ast.Pass) for z in u.orelse):
                            u.orelse = []
                        stack.extend(u.body + u.orelse)
                k += 1
                again = True
                break
            if again:
                break
    if k:
        ast.fix_missing_locations(fn)
    return k


def drop_tail_return_none(fn):
    """`return None` / bare `return` in tail position (last statement of a chain of if/else blocks that ends the function body, not
    inside a loop, try or with) is what falling off the end does anyway: dropped."""
    k = [0]

    def tail(stmts):
        if not stmts:
            return
        last = stmts[-1]
        if isinstance(last, ast.Return) and (last.value is None or (isinstance(last.value, ast.Constant) and last.value.value is None)):
            if len(stmts) > 1:
                del stmts[-1]
            else:
                stmts[-1] = ast.copy_location(ast.Pass(), last)
            k[0] += 1
            tail(stmts)
        elif isinstance(last, ast.If):
            tail(last.body)
            tail(last.orelse)
            if last.orelse and all(isinstance(z, ast.Pass) for z in last.orelse):
                last.orelse = []
    if any(isinstance(n, (ast.Yield, ast.YieldFrom)) for n in ast.walk(fn)):
        return 0
    tail(fn.body)
    return k[0]


def eliminate_result_copies(fn):
    """x = __t where EVERY definition of the local x is a copy of the same inliner temporary __t, and __t is not stored
    between any of those copies and a use of x it reaches (decided on the function's control-flow graph): x is __t - its uses
    are renamed and the copies dropped."""
    from . import cfg as C
    from . import effects as E
    import networkx as nx
    k = 0
    params = {a.arg for a in fn.args.args}
    cands = {}
    for n in ast.walk(fn):
        if isinstance(n, ast.Name) and isinstance(n.ctx, (ast.Store, ast.Del)) and not n.id.startswith("__") and n.id not in params:
            cands.setdefault(n.id, []).append(n)
    if not cands:
        return 0
    g = None
    for x, stores in sorted(cands.items()):
        copies = []
        for b in _blocks(fn):
            for st in b:
                if isinstance(st, ast.Assign) and len(st.targets) == 1 and isinstance(st.targets[0], ast.Name) and st.targets[0].id == x and \
                        isinstance(st.value, ast.Name) and st.value.id.startswith("__"):
                    copies.append((b, st))
        if not copies or len(copies) != len(stores) or len({st.value.id for _, st in copies}) != 1:
            continue
        t = copies[0][1].value.id
        if g is None:
            try:
                g = C.CFG(fn)
            except Exception:
                return k
        try:
            cnodes = [g.node_of(st) for _, st in copies]
        except Exception:
            continue
        H = g.G.subgraph([n for n in g.G.nodes if n not in cnodes])
        ok = True
        for c in cnodes:
            region = set()
            for s2 in g.G.successors(c):
                if s2 in H:
                    region |= nx.descendants(H, s2) | {s2}
            uses = [n for n in region if n.ast is not None and any(isinstance(y, ast.Name) and y.id == x and isinstance(y.ctx, ast.Load)
                                                                   for r in E.node_exprs(n) for y in ast.walk(r))]
            for n in region:
                if t in E.stored_locs(n):
                    # a store to t after the copy: unsafe if a use of x is still reachable from there
                    after = nx.descendants(H, n) & set(uses) if n in H else set()
                    if after or n in uses:
                        ok = False
                        break
            if not ok:
                break
        if not ok:
            continue
        for n in ast.walk(fn):
            if isinstance(n, ast.Name) and n.id == x and isinstance(n.ctx, ast.Load):
                n.id = t
        for b, st in copies:
            b.remove(st)
            if not b:
                b.append(ast.copy_location(ast.Pass(), st))
        k += 1
        g = None
    return k


def forward_unpack_targets(fn, known):
    """`a, b = E` ... `X = b` where the new local b is used nowhere else and nothing between the two statements touches X or has
    effects: the value is unpacked into X directly (`a, X = E`)."""
    k = 0
    for blk in _blocks(fn):
        i = 0
        while i < len(blk):
            s = blk[i]
            if isinstance(s, ast.Assign) and len(s.targets) == 1 and isinstance(s.targets[0], ast.Tuple) and \
                    not isinstance(s.value, (ast.Tuple, ast.List)):
                for j, el in enumerate(s.targets[0].elts):
                    if not (isinstance(el, ast.Name) and el.id not in known and not el.id.startswith("__")):
                        continue
                    occ = [n for n in ast.walk(fn) if isinstance(n, ast.Name) and n.id == el.id]
                    if len(occ) != 2:
                        continue
                    # the single read must be `X = b` later in this block
                    for m in range(i + 1, len(blk)):
                        t = blk[m]
                        if isinstance(t, ast.Assign) and len(t.targets) == 1 and isinstance(t.value, ast.Name) and t.value.id == el.id and \
                                isinstance(t.targets[0], (ast.Attribute, ast.Name)):
                            X = t.targets[0]
                            xs = src(X)
                            between = blk[i + 1:m]
                            if any((writes_of(u) & {"<state>", xs}) or xs in reads(u) or any(src(n2) == xs for n2 in ast.walk(u) if isinstance(n2, (ast.Attribute, ast.Name)))
                                   for u in between):
                                break
                            s.targets[0].elts[j] = copy.deepcopy(X)
                            for n2 in ast.walk(s.targets[0].elts[j]):
                                if hasattr(n2, "ctx") and n2 is s.targets[0].elts[j]:
                                    n2.ctx = ast.Store()
                            ast.fix_missing_locations(s)
                            del blk[m]
                            k += 1
                            break
                        if any(isinstance(n2, ast.Name) and n2.id == el.id for n2 in ast.walk(t)):
                            break
            i += 1
    return k


def seed_list_literals(fn):
    """x = [a..]  followed in the same block (nothing in between mentions x or rebinds a..) by  x.append(e)  ->  x = [a.., e] at
    the append's place; repeated, so that several leading appends build one literal."""
    k = 0
    again = True
    while again:
        again = False
        for blk in _blocks(fn):
            for i, s in enumerate(blk):
                if not (isinstance(s, ast.Assign) and len(s.targets) == 1 and isinstance(s.targets[0], ast.Name) and isinstance(s.value, ast.List) and
                        all(isinstance(e, (ast.Name, ast.Constant)) for e in s.value.elts)):
                    continue
                x = s.targets[0].id
                for j in range(i + 1, len(blk)):
                    t = blk[j]
                    if isinstance(t, ast.Expr) and isinstance(t.value, ast.Call) and isinstance(t.value.func, ast.Attribute) and \
                            t.value.func.attr == "append" and isinstance(t.value.func.value, ast.Name) and t.value.func.value.id == x and \
                            len(t.value.args) == 1 and not t.value.keywords and not _mentions_name(t.value.args[0], x):
                        between = blk[i + 1:j]
                        rd = {n.id for e in s.value.elts for n in ast.walk(e) if isinstance(n, ast.Name)}
                        wr = {n.id for b in between for n in ast.walk(b) if isinstance(n, ast.Name) and isinstance(n.ctx, ast.Store)}
                        if rd & wr:
                            break
                        new = ast.Assign(targets=[ast.Name(id=x, ctx=ast.Store())],
                                         value=ast.List(elts=list(s.value.elts) + [t.value.args[0]], ctx=ast.Load()))
                        ast.copy_location(new, t)
                        ast.fix_missing_locations(new)
                        blk[j] = new
                        del blk[i]
                        k += 1
                        again = True
                        break
                    if _mentions_name(t, x):
                        break
                if again:
                    break
            if again:
                break
    return k


def last_element_reads(fn):
    """x[-1] where x is a local list that is only ever built by `x = [.., v]` / `x.append(v)` and read (never aliased, passed
    on or mutated otherwise), at a point where on every path the most recent of those writes put the variable v last and v has
    not been rebound since: the read is v (forward must-dataflow on the function's control-flow graph)."""
    from . import cfg as C
    from . import effects as E
    reads = [n for n in ast.walk(fn) if isinstance(n, ast.Subscript) and isinstance(n.ctx, ast.Load) and isinstance(n.value, ast.Name) and
             isinstance(n.slice, ast.UnaryOp) and isinstance(n.slice.op, ast.USub) and isinstance(n.slice.operand, ast.Constant) and n.slice.operand.value == 1]
    if not reads:
        return 0
    par = {}
    for n in ast.walk(fn):
        for c in ast.iter_child_nodes(n):
            par[id(c)] = n
    params = {a.arg for a in fn.args.args + fn.args.kwonlyargs + fn.args.posonlyargs}
    lists = set()
    for x in {r.value.id for r in reads} - params:
        ok = True
        for n in ast.walk(fn):
            if not (isinstance(n, ast.Name) and n.id == x):
                continue
            p = par.get(id(n))
            if isinstance(n.ctx, ast.Store):
                if not (isinstance(p, ast.Assign) and len(p.targets) == 1 and p.targets[0] is n and isinstance(p.value, ast.List)):
                    ok = False
                continue
            if isinstance(p, ast.Subscript) and p.value is n and isinstance(p.ctx, ast.Load):
                continue
            if isinstance(p, ast.Attribute) and p.attr == "append" and isinstance(par.get(id(p)), ast.Call) and par[id(p)].func is p:
                continue
            if isinstance(p, ast.Call) and isinstance(p.func, ast.Name) and p.func.id == "len":
                continue
            if isinstance(p, ast.Return) or (isinstance(p, ast.Tuple) and isinstance(par.get(id(p)), ast.Return)):
                continue
            if isinstance(p, ast.For) and p.iter is n:
                continue
            ok = False
        if ok:
            lists.add(x)
    if not lists:
        return 0
    try:
        g = C.CFG(fn)
    except Exception:
        return 0

    def closure(pairs, v):
        out = {v}
        changed = True
        while changed:
            changed = False
            for a, b in pairs:
                if a in out and b not in out:
                    out.add(b)
                    changed = True
                elif b in out and a not in out:
                    out.add(a)
                    changed = True
        return out

    def kill(st, name):
        last, pairs = st
        last = {x: frozenset(n for n in vs if n != name) for x, vs in last.items()}
        last = {x: vs for x, vs in last.items() if vs}
        pairs = frozenset(p for p in pairs if name not in p)
        return last, pairs

    def transfer(node, st):
        last, pairs = dict(st[0]), st[1]
        a = node.ast
        if a is None:
            return last, pairs
        if node.kind == "stmt":
            if isinstance(a, ast.Assign) and len(a.targets) == 1 and isinstance(a.targets[0], ast.Name) and a.targets[0].id in lists:
                x = a.targets[0].id
                if a.value.elts and isinstance(a.value.elts[-1], ast.Name):
                    last[x] = frozenset(closure(pairs, a.value.elts[-1].id))
                else:
                    last.pop(x, None)
                return last, pairs
            if isinstance(a, ast.Expr) and isinstance(a.value, ast.Call) and isinstance(a.value.func, ast.Attribute) and a.value.func.attr == "append" and \
                    isinstance(a.value.func.value, ast.Name) and a.value.func.value.id in lists:
                x = a.value.func.value.id
                if len(a.value.args) == 1 and isinstance(a.value.args[0], ast.Name):
                    last[x] = frozenset(closure(pairs, a.value.args[0].id))
                else:
                    last.pop(x, None)
                return last, pairs
            if isinstance(a, ast.Assign) and len(a.targets) == 1 and isinstance(a.targets[0], ast.Name) and isinstance(a.value, ast.Name) and \
                    a.targets[0].id != a.value.id:
                # a plain copy: the target now equals the source
                t, v = a.targets[0].id, a.value.id
                last, pairs = kill((last, pairs), t)
                pairs = pairs | {(t, v)}
                last = {x: (vs | {t} if v in vs else vs) for x, vs in last.items()}
                return last, pairs
        st2 = (last, pairs)
        for r in E.node_exprs(node):
            for n in ast.walk(r):
                if isinstance(n, ast.Name) and isinstance(n.ctx, (ast.Store, ast.Del)):
                    st2 = kill(st2, n.id)
                if isinstance(n, ast.Call) and isinstance(n.func, ast.Attribute) and n.func.attr == "append" and isinstance(n.func.value, ast.Name) and \
                        n.func.value.id in lists:
                    l2 = dict(st2[0])
                    l2.pop(n.func.value.id, None)      # an append nested in a larger statement
                    st2 = (l2, st2[1])
        return st2

    def meet(s1, s2):
        last = {x: s1[0][x] & s2[0][x] for x in s1[0] if x in s2[0] and (s1[0][x] & s2[0][x])}
        return last, s1[1] & s2[1]
    IN = {g.entry: ({}, frozenset())}
    work = [g.entry]
    OUT = {}
    while work:
        n = work.pop()
        o = transfer(n, IN[n])
        if n in OUT and OUT[n] == o:
            continue
        OUT[n] = o
        for s2 in g.G.successors(n):
            if s2 not in IN:
                IN[s2] = o
                work.append(s2)
            else:
                m = meet(IN[s2], o)
                if m != IN[s2] or s2 not in OUT:
                    IN[s2] = m
                    work.append(s2)
    k = 0
    for r in reads:
        x = r.value.id
        if x not in lists:
            continue
        try:
            node = g.node_of(r)
        except Exception:
            continue
        vs = IN.get(node, ({}, None))[0].get(x)
        if not vs:
            continue
        v = sorted(vs, key=lambda nm: (nm.startswith("__"), nm))[0]
        p = par.get(id(r))
        new = ast.copy_location(ast.Name(id=v, ctx=ast.Load()), r)
        for field, val in ast.iter_fields(p):
            if val is r:
                setattr(p, field, new)
                k += 1
            elif isinstance(val, list):
                for i2, e in enumerate(val):
                    if e is r:
                        val[i2] = new
                        k += 1
    return k


def record_types(tree):
    """Module-level immutable record types: Name = namedtuple("..", [fields]) -> {Name: [fields]}"""
    out = {}
    ctor = {"collections.namedtuple"}
    for n in tree.body:
        if isinstance(n, ast.ImportFrom) and n.module == "collections":
            for a in n.names:
                if a.name == "namedtuple":
                    ctor.add(a.asname or a.name)
        elif isinstance(n, ast.Import):
            for a in n.names:
                if a.name == "collections" and a.asname:
                    ctor.add(a.asname + ".namedtuple")
    for st in tree.body:
        if isinstance(st, ast.Assign) and len(st.targets) == 1 and isinstance(st.targets[0], ast.Name) and isinstance(st.value, ast.Call) and \
                src(st.value.func) in ctor and len(st.value.args) == 2 and not st.value.keywords:
            f = st.value.args[1]
            fields = None
            if isinstance(f, (ast.List, ast.Tuple)) and all(isinstance(e, ast.Constant) and isinstance(e.value, str) for e in f.elts):
                fields = [e.value for e in f.elts]
            elif isinstance(f, ast.Constant) and isinstance(f.value, str):
                fields = f.value.replace(",", " ").split()
            if fields and len(set(fields)) == len(fields):
                out[st.targets[0].id] = fields
    for name in list(out):
        if sum(1 for n in ast.walk(tree) if isinstance(n, ast.Name) and n.id == name and isinstance(n.ctx, ast.Store)) != 1:
            del out[name]
    return out


def scalarise_records(fn, rectypes):
    """A local that only ever holds freshly built records of one module-level namedtuple type and is only read field by field
    is replaced by one local per field (scalar replacement of aggregates): x = T(a, b) -> (x_f1, x_f2) = (a, b); x.f1 -> x_f1."""
    if not rectypes:
        return 0
    par = {}
    for n in ast.walk(fn):
        for c in ast.iter_child_nodes(n):
            par[id(c)] = n
    params = {a.arg for a in fn.args.args + fn.args.kwonlyargs + fn.args.posonlyargs}
    names = {}
    for n in ast.walk(fn):
        if isinstance(n, ast.Name) and n.id not in params:
            names.setdefault(n.id, []).append(n)
    taken = set(names) | params
    k = 0
    for x, occ in sorted(names.items()):
        T = None
        ok = True
        stores = []
        loads = []
        for n in occ:
            p = par.get(id(n))
            if isinstance(n.ctx, ast.Store):
                if isinstance(p, ast.Assign) and len(p.targets) == 1 and p.targets[0] is n and isinstance(p.value, ast.Call) and \
                        isinstance(p.value.func, ast.Name) and p.value.func.id in rectypes and (T is None or T == p.value.func.id):
                    T = p.value.func.id
                    stores.append(p)
                else:
                    ok = False
            elif isinstance(n.ctx, ast.Load):
                if isinstance(p, ast.Attribute) and p.value is n and isinstance(p.ctx, ast.Load):
                    loads.append(p)
                elif isinstance(p, ast.Subscript) and p.value is n and isinstance(p.ctx, ast.Load) and isinstance(p.slice, ast.Constant) and isinstance(p.slice.value, int):
                    loads.append(p)
                else:
                    ok = False
            else:
                ok = False
        if not ok or T is None or not stores:
            continue
        fields = rectypes[T]
        # every construction names each field exactly once
        argmaps = []
        for st in stores:
            c = st.value
            if any(isinstance(a, ast.Starred) for a in c.args) or any(kw.arg is None for kw in c.keywords) or len(c.args) + len(c.keywords) != len(fields):
                ok = False
                break
            m = [(fields[i], a) for i, a in enumerate(c.args)] + [(kw.arg, kw.value) for kw in c.keywords]
            if sorted(f for f, _ in m) != sorted(fields):
                ok = False
                break
            argmaps.append(m)
        if not ok:
            continue
        fld = {}
        for l in loads:
            if isinstance(l, ast.Attribute):
                if l.attr not in fields:
                    ok = False
            elif not (-len(fields) <= l.slice.value < len(fields)):
                ok = False
        if not ok:
            continue
        for f in fields:
            nm = "%s_%s" % (x, f)
            while nm in taken:
                nm += "_"
            taken.add(nm)
            fld[f] = nm
        for st, m in zip(stores, argmaps):
            # arguments are evaluated in call order, then all fields are bound at once
            st.targets = [ast.Tuple(elts=[ast.Name(id=fld[f], ctx=ast.Store()) for f, _ in m], ctx=ast.Store())]
            st.value = ast.Tuple(elts=[a for _, a in m], ctx=ast.Load())
            ast.fix_missing_locations(st)
        for l in loads:
            f = l.attr if isinstance(l, ast.Attribute) else fields[l.slice.value]
            new = ast.copy_location(ast.Name(id=fld[f], ctx=ast.Load()), l)
            p = par.get(id(l))
            for field, val in ast.iter_fields(p):
                if val is l:
                    setattr(p, field, new)
                elif isinstance(val, list):
                    for i, e in enumerate(val):
                        if e is l:
                            val[i] = new
        k += 1
    return k


def renest_flat_loops(fn):
    """I; while True: (if C: I else: B)   ->   while True: (I; while not C: B)
    where I is the same run of plain assignments before the loop and in the C branch, and B does not break / continue the
    loop: both execute I, then (test C; B)* until C holds, then I again ... - the identical sequence of tests and effects."""
    k = 0
    for blk in _blocks(fn):
        for i, w in enumerate(blk):
            if not (isinstance(w, ast.While) and isinstance(w.test, ast.Constant) and w.test.value is True and not w.orelse and
                    len(w.body) == 1 and isinstance(w.body[0], ast.If) and w.body[0].orelse):
                continue
            br = w.body[0]
            init = [t for t in br.body if not isinstance(t, (ast.Continue, ast.Pass))]
            n = len(init)
            if n == 0 or i < n or not all(isinstance(t, ast.Assign) and all(isinstance(x, ast.Name) for x in t.targets) for t in init):
                continue
            if [src(t) for t in blk[i - n:i]] != [src(t) for t in init]:
                continue
            if any(isinstance(t, ast.Continue) for t in br.body[:-1]) or _free_jumps(br.orelse):
                continue
            inner = ast.While(test=negate(br.test), body=br.orelse, orelse=[])
            ast.copy_location(inner, br)
            w.body = init + [inner]
            ast.fix_missing_locations(w)
            del blk[i - n:i]
            k += 1
            break
    return k


def argsort_to_sorted(fn):
    """decorate / argsort / undecorate:   S = [K(v) for v in M]; order = sorted(range(len(M)), key=S.__getitem__[, reverse=R]);
    ... M[order[e]] ...     ->     order = sorted(M, key=<K>[, reverse=R]); ... order[e] ...
    (both sorts are stable and compute every key once, in list order: the same permutation of the same elements)."""
    par = {}
    for n in ast.walk(fn):
        for c in ast.iter_child_nodes(n):
            par[id(c)] = n
    k = 0
    for blk in _blocks(fn):
        for st in list(blk):
            if not (isinstance(st, ast.Assign) and len(st.targets) == 1 and isinstance(st.targets[0], ast.Name) and isinstance(st.value, ast.Call) and
                    src(st.value.func) == "sorted" and len(st.value.args) == 1):
                continue
            call = st.value
            a = call.args[0]
            kw = {x.arg: x.value for x in call.keywords}
            if not (set(kw) <= {"key", "reverse"} and "key" in kw and isinstance(kw["key"], ast.Attribute) and kw["key"].attr == "__getitem__" and
                    isinstance(kw["key"].value, ast.Name)):
                continue
            if not (isinstance(a, ast.Call) and src(a.func) == "range" and len(a.args) == 1 and isinstance(a.args[0], ast.Call) and
                    src(a.args[0].func) == "len" and len(a.args[0].args) == 1 and isinstance(a.args[0].args[0], ast.Name)):
                continue
            M, S, order = a.args[0].args[0].id, kw["key"].value.id, st.targets[0].id
            sdefs = [t for t in blk if isinstance(t, ast.Assign) and len(t.targets) == 1 and isinstance(t.targets[0], ast.Name) and t.targets[0].id == S]
            if len(sdefs) != 1 or blk.index(sdefs[0]) > blk.index(st):
                continue
            sd = sdefs[0]
            lc = sd.value
            if not (isinstance(lc, ast.ListComp) and len(lc.generators) == 1 and not lc.generators[0].ifs and not lc.generators[0].is_async and
                    isinstance(lc.generators[0].iter, ast.Name) and lc.generators[0].iter.id == M and isinstance(lc.generators[0].target, ast.Name)):
                continue
            v = lc.generators[0].target.id
            # S: only its definition and the key;  order: only len(order) and M[order[e]];  M: never written after its definition
            s_uses = [n for n in ast.walk(fn) if isinstance(n, ast.Name) and n.id == S]
            if len(s_uses) != 2:
                continue
            ok = True
            repl = []
            for n in ast.walk(fn):
                if isinstance(n, ast.Name) and n.id == order and n is not st.targets[0]:
                    p1 = par.get(id(n))
                    if isinstance(p1, ast.Call) and src(p1.func) == "len":
                        continue
                    p2 = par.get(id(p1))
                    if isinstance(p1, ast.Subscript) and p1.value is n and isinstance(p1.ctx, ast.Load) and isinstance(p2, ast.Subscript) and \
                            p2.slice is p1 and isinstance(p2.value, ast.Name) and p2.value.id == M and isinstance(p2.ctx, ast.Load):
                        repl.append((p2, p1))
                    else:
                        ok = False
                elif isinstance(n, ast.Name) and n.id == M and isinstance(n.ctx, ast.Store):
                    d = par.get(id(n))
                    if not (isinstance(d, ast.Assign) and d in blk and blk.index(d) < blk.index(sd)):
                        ok = False
                elif isinstance(n, ast.Name) and n.id == M:
                    p1 = par.get(id(n))
                    if isinstance(p1, ast.Attribute) or (isinstance(p1, ast.Subscript) and not isinstance(p1.ctx, ast.Load)):
                        ok = False
            if not ok:
                continue
            K = lc.elt
            if isinstance(K, ast.Call) and len(K.args) == 1 and not K.keywords and isinstance(K.args[0], ast.Name) and K.args[0].id == v and \
                    not _mentions_name(K.func, v):
                key = K.func
            else:
                key = ast.Lambda(args=ast.arguments(posonlyargs=[], args=[ast.arg(arg=v)], kwonlyargs=[], kw_defaults=[], defaults=[]), body=K)
            call.args = [ast.Name(id=M, ctx=ast.Load())]
            call.keywords = [ast.keyword(arg="key", value=key)] + [x for x in call.keywords if x.arg == "reverse"]
            for outer, inner_ in repl:
                p = par.get(id(outer))
                for field, val in ast.iter_fields(p):
                    if val is outer:
                        setattr(p, field, inner_)
                    elif isinstance(val, list):
                        for i, e in enumerate(val):
                            if e is outer:
                                val[i] = inner_
            blk.remove(sd)
            ast.fix_missing_locations(fn)
            k += 1
    return k


COUNTERS = [set()]      # attribute names whose every store in the analysed packages is `<obj>.X = <int constant >= 0>` or `<obj>.X += <int constant > 0>`


def collect_counters(trees):
    """Attributes that are non-negative integer counters by construction (every store of that attribute name, on any object,
    anywhere in the analysed packages, assigns a non-negative integer literal or adds a positive one)."""
    ok, bad = set(), set()
    for tree in trees:
        good_nodes = set()
        for n in ast.walk(tree):
            if isinstance(n, ast.Assign) and len(n.targets) == 1 and isinstance(n.targets[0], ast.Attribute) and isinstance(n.value, ast.Constant) and \
                    type(n.value.value) is int and n.value.value >= 0:
                good_nodes.add(id(n.targets[0]))
                ok.add(n.targets[0].attr)
            elif isinstance(n, ast.AugAssign) and isinstance(n.target, ast.Attribute) and isinstance(n.op, ast.Add) and isinstance(n.value, ast.Constant) and \
                    type(n.value.value) is int and n.value.value > 0:
                good_nodes.add(id(n.target))
                ok.add(n.target.attr)
        for n in ast.walk(tree):
            if isinstance(n, ast.Attribute) and isinstance(n.ctx, (ast.Store, ast.Del)) and id(n) not in good_nodes:
                bad.add(n.attr)
            elif isinstance(n, ast.Call) and isinstance(n.func, ast.Name) and n.func.id in ("setattr", "delattr"):
                return set()
            elif isinstance(n, ast.Attribute) and n.attr == "__dict__":
                return set()
    return ok - bad


def _known_range(c, pol):
    """(expression source, lo, hi) known about an integer-or-None valued expression when test `c` has truth value `pol`:
    E == K / E != K with K an int literal; for a non-negative counter E, not (E == 0) gives E >= 1."""
    if isinstance(c, ast.Compare) and len(c.ops) == 1 and isinstance(c.comparators[0], ast.Constant) and type(c.comparators[0].value) is int:
        K = c.comparators[0].value
        E = c.left
        op = c.ops[0]
        if isinstance(op, ast.NotEq):
            op, pol = ast.Eq(), not pol
        if isinstance(op, ast.Eq):
            if pol:
                return src(E), K, K
            if K == 0 and isinstance(E, ast.Attribute) and E.attr in COUNTERS[0]:
                return src(E), 1, None
    return None


def _decide(t, c, pol, rng):
    """Truth value of test `t` given that test `c` has truth value `pol` (None: not determined)."""
    if src(t) == src(c):
        return pol
    if isinstance(t, ast.UnaryOp) and isinstance(t.op, ast.Not):
        v = _decide(t.operand, c, pol, rng)
        return None if v is None else not v
    if isinstance(c, ast.UnaryOp) and isinstance(c.op, ast.Not):
        return _decide(t, c.operand, not pol, _known_range(c.operand, not pol))
    if isinstance(t, ast.Compare) and len(t.ops) == 1 and isinstance(c, ast.Compare) and len(c.ops) == 1 and src(t.left) == src(c.left) and \
            src(t.comparators[0]) == src(c.comparators[0]):
        pairs = {(ast.Eq, ast.NotEq), (ast.NotEq, ast.Eq), (ast.Is, ast.IsNot), (ast.IsNot, ast.Is), (ast.In, ast.NotIn), (ast.NotIn, ast.In)}
        if (type(t.ops[0]), type(c.ops[0])) in pairs:
            return not pol
    if rng is not None and isinstance(t, ast.Compare) and len(t.ops) == 1 and src(t.left) == rng[0] and isinstance(t.comparators[0], ast.Constant) and \
            type(t.comparators[0].value) is int:
        K2 = t.comparators[0].value
        lo, hi = rng[1], rng[2]
        op = type(t.ops[0])
        f = {ast.Lt: lambda a: a < K2, ast.LtE: lambda a: a <= K2, ast.Gt: lambda a: a > K2, ast.GtE: lambda a: a >= K2,
             ast.Eq: lambda a: a == K2, ast.NotEq: lambda a: a != K2}.get(op)
        if f is None:
            return None
        # the predicate is monotone or a point test: sample the end points and the points next to K2 that lie in the range
        pts = {lo, K2 - 1, K2, K2 + 1} | ({hi} if hi is not None else {max(lo, K2) + 2})
        pts = {a for a in pts if a >= lo and (hi is None or a <= hi)}
        vals = {f(a) for a in pts}
        if len(vals) == 1:
            return vals.pop()
    return None


def _fold_test(t, c, pol, rng):
    """(new test or True/False, number of atoms decided)"""
    v = _decide(t, c, pol, rng)
    if v is not None:
        return v, 1
    if isinstance(t, ast.BoolOp):
        isand = isinstance(t.op, ast.And)
        keep, k = [], 0
        for o in t.values:
            r, kk = _fold_test(o, c, pol, rng)
            k += kk
            if r is True or r is False:
                if r != isand:
                    # a False in an `and` / a True in an `or` decides the whole test only if the operands before it have no effect:
                    # tests are pure here (checked by the caller)
                    return r, k
                continue
            keep.append(r)
        if not keep:
            return isand, k
        return (keep[0] if len(keep) == 1 else ast.BoolOp(op=t.op, values=keep)), k
    if isinstance(t, ast.UnaryOp) and isinstance(t.op, ast.Not):
        r, k = _fold_test(t.operand, c, pol, rng)
        if r is True or r is False:
            return (not r), k
        return ast.UnaryOp(op=ast.Not(), operand=r), k
    return t, 0


def _specialise(stmts, c, pol, deps):
    """Fold the If tests of a statement list under the knowledge `c is pol`, as long as nothing executed so far can have changed
    what c reads.  Returns (new statement list, folds, still_valid)."""
    rng = _known_range(c, pol)
    out, k = [], 0
    valid = True
    for s in stmts:
        if not valid:
            out.append(s)
            continue
        if isinstance(s, ast.If):
            if not pure_expr(s.test) or (writes_of(ast.Expr(value=s.test)) & deps):
                valid = False
                out.append(s)
                continue
            r, kk = _fold_test(s.test, c, pol, rng)
            k += kk
            body, k1, v1 = _specialise(s.body, c, pol, deps)
            orelse, k2, v2 = _specialise(s.orelse, c, pol, deps)
            if r is True:
                out.extend(body)
                k += k1
                valid = v1
            elif r is False:
                out.extend(orelse)
                k += k2
                valid = v2
            else:
                k += k1 + k2
                s.test, s.body, s.orelse = r, body or [ast.Pass()], orelse
                out.append(s)
                valid = v1 and v2
            continue
        if isinstance(s, (ast.For, ast.While, ast.With, ast.Try)):
            if writes_of(s) & deps:
                valid = False
                out.append(s)
                continue
            for field in ("body", "orelse", "finalbody"):
                blk = getattr(s, field, None)
                if blk:
                    nb, kk, _v = _specialise(blk, c, pol, deps)
                    k += kk
                    setattr(s, field, nb or [ast.Pass()])
            out.append(s)
            continue
        out.append(s)
        if writes_of(s) & deps:
            valid = False
    return out, k, valid


def specialise_tail_on_test(fn):
    """if c: A else: B;  T        where T tests c again (or something c decides), c is pure and neither A, B nor the part of T
    before the re-test changes what c reads
        ->   if c: A; T[c := True] else: B; T[c := False]
    The two branches of a case distinction that were merged into one parameterised tail (`if not at_root: ...`,
    `if at_root or done: ...`) are read as the two cases again.  Every path executes the same statements in the same order;
    folded tests are pure and have the value they are replaced by."""
    k = 0
    params = {a.arg for a in fn.args.args + fn.args.kwonlyargs + fn.args.posonlyargs}
    for _round in range(4):
        changed = False
        for blk in _blocks(fn):
            for i, a in enumerate(blk):
                if not (isinstance(a, ast.If) and a.orelse and i + 1 < len(blk)):
                    continue
                c = a.test
                if not pure_expr(c) or any(isinstance(x, ast.Call) for x in ast.walk(c)):
                    continue
                deps = reads(c)
                if not deps or "<heap>" in deps or "<state>" in deps:
                    continue
                if isinstance(c, ast.Name) and c.id in params:
                    continue
                if any(writes_of(t) & deps for t in a.body + a.orelse):
                    continue
                tail = blk[i + 1:]
                size = sum(1 for t in tail for x in ast.walk(t) if isinstance(x, ast.stmt))
                if size > 60 or any(isinstance(x, (ast.FunctionDef, ast.Lambda, ast.ClassDef)) for t in tail for x in ast.walk(t)):
                    continue
                t1, k1, _ = _specialise(copy.deepcopy(tail), c, True, deps)
                t2, k2, _ = _specialise(copy.deepcopy(tail), c, False, deps)
                if k1 + k2 == 0:
                    continue
                a.body = a.body + t1
                a.orelse = a.orelse + t2
                del blk[i + 1:]
                ast.fix_missing_locations(a)
                k += 1
                changed = True
                break
            if changed:
                break
        if not changed:
            break
    return k


def merge_repeated_tests(fn):
    """if f: A1 else: B1;  S;  if f: A2 else: B2     (f a local flag - a plain name, possibly negated - that nothing in between
    rebinds)   ->   if f: A1; S; A2 else: B1; S; B2.   Every path executes the same statements in the same order."""
    k = 0

    def flag_of(t):
        pol = True
        while isinstance(t, ast.UnaryOp) and isinstance(t.op, ast.Not):
            t, pol = t.operand, not pol
        return (t.id, pol) if isinstance(t, ast.Name) else None
    params = {a.arg for a in fn.args.args + fn.args.kwonlyargs + fn.args.posonlyargs}
    again = True
    while again:
        again = False
        for blk in _blocks(fn):
            for i, a in enumerate(blk):
                if not isinstance(a, ast.If):
                    continue
                fa = flag_of(a.test)
                if fa is None or fa[0] in params:
                    continue
                for j in range(i + 1, len(blk)):
                    b = blk[j]
                    if isinstance(b, ast.If) and flag_of(b.test) is not None and flag_of(b.test)[0] == fa[0]:
                        between = blk[i + 1:j]
                        stores = any(isinstance(n, ast.Name) and n.id == fa[0] and isinstance(n.ctx, (ast.Store, ast.Del))
                                     for t in [a] + between for n in ast.walk(t))
                        nested = any(isinstance(n, (ast.FunctionDef, ast.Lambda)) for t in between for n in ast.walk(t))
                        if stores or nested or len(between) > 12:
                            break
                        # paths that leave the first statement early (return / break / continue) are unaffected: what follows
                        # them is unreachable on that path in both versions
                        same = flag_of(b.test)[1] == fa[1]
                        b_then, b_else = (b.body, b.orelse) if same else (b.orelse, b.body)
                        a.body = a.body + copy.deepcopy(between) + b_then
                        a.orelse = (a.orelse or []) + copy.deepcopy(between) + b_else
                        if not a.orelse:
                            a.orelse = []
                        del blk[i + 1:j + 1]
                        ast.fix_missing_locations(a)
                        k += 1
                        again = True
                        break
                    if any(isinstance(n, ast.Name) and n.id == fa[0] and isinstance(n.ctx, (ast.Store, ast.Del)) for n in ast.walk(b)):
                        break
                if again:
                    break
            if again:
                break
    return k


def split_webs(fn, known):
    """A new local with several definitions whose def-use webs are disjoint (no use is reached by definitions of two webs) is
    really several variables: each web gets its own name (live-range splitting), so that single-definition rules apply."""
    from . import cfg as C
    from . import effects as E
    cands = {}
    for n in ast.walk(fn):
        if isinstance(n, ast.Name) and isinstance(n.ctx, ast.Store) and n.id not in known and not n.id.startswith("__"):
            cands.setdefault(n.id, []).append(n)
    cands = {x: ds for x, ds in cands.items() if len(ds) >= 2}
    if not cands:
        return 0
    if any(isinstance(n, (ast.FunctionDef, ast.Lambda, ast.ListComp, ast.GeneratorExp, ast.SetComp, ast.DictComp)) and n is not fn and
           any(isinstance(m, ast.Name) and m.id in cands for m in ast.walk(n)) for n in ast.walk(fn)):
        # names captured by nested scopes / comprehensions are left alone
        inner_names = {m.id for n in ast.walk(fn) if isinstance(n, (ast.FunctionDef, ast.Lambda, ast.ListComp, ast.GeneratorExp, ast.SetComp, ast.DictComp))
                       and n is not fn for m in ast.walk(n) if isinstance(m, ast.Name)}
        cands = {x: ds for x, ds in cands.items() if x not in inner_names}
        if not cands:
            return 0
    try:
        g = C.CFG(fn)
    except Exception:
        return 0
    k = 0
    for x, stores in sorted(cands.items()):
        # definition sites: CFG nodes that store x (plain assignment statements / for headers only)
        dnodes = {}
        ok = True
        for st in stores:
            try:
                nd = g.node_of(st)
            except Exception:
                ok = False
                break
            if nd in dnodes:
                ok = False      # two stores in one node (tuple target with x twice ..)
                break
            if nd.kind == "stmt" and isinstance(nd.ast, ast.AugAssign):
                ok = False
                break
            dnodes[nd] = st
        if not ok:
            continue
        # reaching definitions (may): forward, union
        IN = {n: set() for n in g.G.nodes}
        OUT = {n: set() for n in g.G.nodes}
        work = list(g.G.nodes)
        while work:
            n = work.pop()
            i = set()
            for p in g.G.predecessors(n):
                i |= OUT[p]
            if n is g.entry:
                i = {"<entry>"}
            IN[n] = i
            o = {n} if n in dnodes else i
            if o != OUT[n]:
                OUT[n] = o
                work.extend(g.G.successors(n))
        parent = {d: d for d in dnodes}

        def find(a):
            while parent[a] is not a:
                a = parent[a]
            return a
        uses = []
        for n in g.G.nodes:
            if n.ast is None:
                continue
            lds = [m for r in E.node_exprs(n) for m in ast.walk(r) if isinstance(m, ast.Name) and m.id == x and isinstance(m.ctx, ast.Load)]
            if not lds:
                continue
            rd = IN[n]
            if "<entry>" in rd or not rd:
                ok = False      # possibly unbound use: leave the variable alone
                break
            rd = sorted(rd, key=lambda d: d.id)
            for d in rd[1:]:
                ra, rb = find(rd[0]), find(d)
                if ra is not rb:
                    parent[rb] = ra
            uses.append((n, lds, rd[0]))
        if not ok:
            continue
        roots = sorted({find(d) for d in dnodes}, key=lambda d: d.id)
        if len(roots) < 2:
            continue
        taken = {m.id for m in ast.walk(fn) if isinstance(m, ast.Name)}
        names = {}
        for idx, r in enumerate(roots):
            if idx == 0:
                names[r] = x
            else:
                nm = "%s_w%d" % (x, idx + 1)
                while nm in taken:
                    nm += "_"
                taken.add(nm)
                names[r] = nm
        for d, st in dnodes.items():
            st.id = names[find(d)]
        for n, lds, d0 in uses:
            for m in lds:
                m.id = names[find(d0)]
        k += 1
    return k


def inline_filtered_lists(fn):
    """L = [v for v in R if P(v)]  ...  for x in L: BODY      ->      for x in R: if P(x): BODY
    for a local L that is used only as the iterable of for loops (and in `n = len(L)` before the first of them, which becomes a
    counter incremented under the guard).  P may consist of leaf tests (`.get_children()` / `.children` compared with None) and
    plain locals - then nothing between the definition and the end of the last such loop may grow the tree, rebind a name that R
    or P read, or call unknown code - or of any side-effect-free tests (getters, flags), and then that region may not change
    any object state at all: the same elements are visited in the same order and P has the same value when the loop reaches an
    element as it had when the list was built."""
    par = {}
    for n in ast.walk(fn):
        for c in ast.iter_child_nodes(n):
            par[id(c)] = n
    k = 0
    for blk in _blocks(fn):
        for st in list(blk):
            if st not in blk:
                continue
            i = blk.index(st)
            if not (isinstance(st, ast.Assign) and len(st.targets) == 1 and isinstance(st.targets[0], ast.Name) and isinstance(st.value, ast.ListComp)):
                continue
            lc = st.value
            if len(lc.generators) != 1:
                continue
            g = lc.generators[0]
            if g.is_async or len(g.ifs) != 1 or not isinstance(g.target, ast.Name) or not (isinstance(lc.elt, ast.Name) and lc.elt.id == g.target.id):
                continue
            L, v, P, R = st.targets[0].id, g.target.id, g.ifs[0], g.iter
            leaf_only = True
            for n in ast.walk(P):
                if isinstance(n, ast.Call):
                    if not (isinstance(n.func, ast.Attribute) and n.func.attr == "get_children" and not n.args and not n.keywords):
                        leaf_only = False
                elif isinstance(n, ast.Attribute):
                    if n.attr not in ("get_children", "children"):
                        leaf_only = False
                elif not isinstance(n, (ast.Name, ast.Compare, ast.BoolOp, ast.UnaryOp, ast.Constant, ast.Is, ast.IsNot, ast.And, ast.Or, ast.Not,
                                        ast.Load, ast.Subscript, ast.Eq, ast.NotEq)):
                    leaf_only = False
            if not leaf_only and not pure_expr(P):
                continue
            if not simple_arg(R) or isinstance(R, ast.Constant):
                continue
            occ = [n for n in ast.walk(fn) if isinstance(n, ast.Name) and n.id == L]
            uses = [n for n in occ if n is not st.targets[0]]
            loops, counts = [], []
            ok = bool(uses)
            for n in uses:
                p1 = par.get(id(n))
                p2 = par.get(id(p1)) if p1 is not None else None
                if isinstance(p1, ast.For) and p1.iter is n and isinstance(p1.target, ast.Name):
                    loops.append(p1)
                elif isinstance(p1, ast.Call) and src(p1.func) == "len" and len(p1.args) == 1 and isinstance(p2, ast.Assign) and p2.value is p1 and \
                        len(p2.targets) == 1 and isinstance(p2.targets[0], ast.Name) and p2 in blk:
                    counts.append(p2)
                else:
                    ok = False
            if not ok or not loops or len(counts) > 1:
                continue
            last = i
            first_loop_idx = None
            for lp in loops:
                cur = lp
                while cur is not None and cur not in blk:
                    cur = par.get(id(cur))
                if cur is None or blk.index(cur) <= i:
                    ok = False
                    break
                last = max(last, blk.index(cur))
                if first_loop_idx is None or blk.index(cur) < first_loop_idx:
                    first_loop_idx = blk.index(cur)
                    first_loop = lp
                    first_top = cur
            if not ok:
                continue
            if counts:
                cs = counts[0]
                cn = cs.targets[0].id
                ci = blk.index(cs)
                # the counter: defined after L, before the first loop (which must be a statement of this block), not read or written
                # until that loop has ended, nor inside it
                if not (i < ci < first_loop_idx and first_top is first_loop):
                    continue
                mid = blk[ci + 1:first_loop_idx + 1]
                if any(isinstance(n, ast.Name) and n.id == cn for t in mid for n in ast.walk(t)):
                    continue
            region = blk[i + 1:last + 1]
            rd = {n.id for e in (R, P) for n in ast.walk(e) if isinstance(n, ast.Name)} - {v}
            for t in region:
                if counts and t is counts[0]:
                    continue
                w = writes_of(t)
                if "<heap:TREE>" in w or "<heap>" in w or (w & rd) or any(x.startswith("<heap:") and x[6:-1] in {src(R)} for x in w):
                    ok = False
                    break
                if not leaf_only and "<state>" in w:
                    ok = False
                    break
            if not ok or any(lp.target.id in rd for lp in loops):
                continue
            for lp in loops:
                test = _Rename({}, {v: ast.Name(id=lp.target.id, ctx=ast.Load())}).visit(copy.deepcopy(P))
                lp.iter = copy.deepcopy(R)
                body = lp.body
                if counts and lp is first_loop:
                    inc = ast.AugAssign(target=ast.Name(id=counts[0].targets[0].id, ctx=ast.Store()), op=ast.Add(), value=ast.Constant(value=1))
                    ast.copy_location(inc, lp)
                    body = [inc] + body
                guard = ast.If(test=test, body=body, orelse=[])
                ast.copy_location(guard, lp)
                lp.body = [guard]
                ast.fix_missing_locations(lp)
            if counts:
                counts[0].value = ast.copy_location(ast.Constant(value=0), counts[0].value)
            blk.remove(st)
            k += 1
    return k


def demote_attr_accumulators(fn, known):
    """x = ..; (loop updating x); self.A = x      ->      the loop works on self.A directly
    for a NEW local x whose final value is copied into self.A by one top-level statement, when self.A is not mentioned before
    that statement and nothing called before it can observe self.A (only getters, np./math. and builtins are called): on every
    normally completing path the attribute ends with the same value and nobody saw the intermediate ones.  (`before` is counted
    from the first statement that mentions x; when the copy comes right after the definition and x is only mutated afterwards -
    `p = [c]; self.A = p; ... p.append(..)` - x is an alias of the attribute's list and is read as the attribute.)"""
    params = {a.arg for a in fn.args.args + fn.args.kwonlyargs + fn.args.posonlyargs}
    k = 0
    for i, st in enumerate(list(fn.body)):
        if not (isinstance(st, ast.Assign) and len(st.targets) == 1 and isinstance(st.targets[0], ast.Attribute) and
                isinstance(st.targets[0].value, ast.Name) and st.targets[0].value.id == "self" and isinstance(st.value, ast.Name)):
            continue
        x, A = st.value.id, st.targets[0].attr
        if x in params or x in known or x.startswith("__"):
            continue
        i = fn.body.index(st)
        before = fn.body[:i]
        after = fn.body[i + 1:]
        # what happens before the local first appears is the same in both versions: the window that matters starts there
        first = [j for j, t in enumerate(before) if _mentions_name(t, x)]
        if not first:
            continue
        before = before[first[0]:]
        if any(isinstance(n, ast.Attribute) and n.attr == A and isinstance(n.value, ast.Name) and n.value.id == "self" for t in before for n in ast.walk(t)):
            continue
        if any(isinstance(n, ast.Name) and n.id == x and isinstance(n.ctx, (ast.Store, ast.Del)) for t in after for n in ast.walk(t)):
            continue
        if not any(isinstance(n, ast.Name) and n.id == x and isinstance(n.ctx, ast.Store) for t in before for n in ast.walk(t)):
            continue
        if any(_mentions_name(t, x) for t in after):
            # x lives on as an alias of the attribute's object: the attribute must keep referring to that object
            rebinders = {q.split(".")[-1] for q in (REBOUND_SITES[0] or {}).get(A, ())} - {fn.name}
            if any(isinstance(n, ast.Attribute) and n.attr == A and isinstance(n.ctx, (ast.Store, ast.Del)) for t in after for n in ast.walk(t)) or \
                    any(isinstance(n, ast.Call) and isinstance(n.func, ast.Attribute) and isinstance(n.func.value, ast.Name) and n.func.value.id == "self" and
                        n.func.attr in rebinders for t in after for n in ast.walk(t)) or REBOUND_SITES[0] is None:
                continue
        if any(isinstance(n, (ast.FunctionDef, ast.Lambda, ast.ListComp, ast.GeneratorExp, ast.SetComp, ast.DictComp)) and
               any(isinstance(m, ast.Name) and m.id == x for m in ast.walk(n)) for t in fn.body for n in ast.walk(t)):
            continue
        ok = True
        for t in before:
            for n in ast.walk(t):
                if isinstance(n, ast.Call):
                    name = src(n.func)
                    if name.startswith(PURE_NS) and not name.startswith(IMPURE_NP):
                        continue
                    if isinstance(n.func, ast.Name) and n.func.id in PURE_CALL_NAMES:
                        continue
                    if isinstance(n.func, ast.Attribute) and (n.func.attr.startswith("get_") or n.func.attr in ("keys", "values", "items", "get")) and \
                            not (isinstance(n.func.value, ast.Name) and n.func.value.id == "self"):
                        continue
                    ok = False
                if isinstance(n, (ast.Return, ast.Raise, ast.Yield)):
                    ok = False      # an exit before the copy would leave the attribute unset in the original
        if not ok:
            continue

        class Sub(ast.NodeTransformer):
            def visit_Name(self, n):
                if n.id == x:
                    return ast.copy_location(ast.Attribute(value=ast.Name(id="self", ctx=ast.Load()), attr=A, ctx=n.ctx), n)
                return n
        del fn.body[i]
        for j, t in enumerate(fn.body):
            fn.body[j] = Sub().visit(t)
        ast.fix_missing_locations(fn)
        k += 1
    return k


def _always_exits(stmts):
    """every path through the statement list ends in return / raise"""
    if not stmts:
        return False
    last = stmts[-1]
    if isinstance(last, (ast.Return, ast.Raise)):
        return True
    if isinstance(last, ast.If) and last.orelse:
        return _always_exits(last.body) and _always_exits(last.orelse)
    return False


def search_to_loop(fn):
    """x = next((v for v in S if Q), None); if x is not None: BODY      (BODY leaves the function on every path, x not used later)
       ->   for v in S: if Q: x = v; BODY
    - next() of a filtered generator is the first element satisfying Q; the loop stops there too, because BODY exits."""
    k = 0
    counter = [0]
    for blk in _blocks(fn):
        i = 0
        while i + 1 < len(blk):
            a, b = blk[i], blk[i + 1]
            i += 1
            if not (isinstance(a, ast.Assign) and len(a.targets) == 1 and isinstance(a.targets[0], ast.Name) and isinstance(a.value, ast.Call) and
                    isinstance(a.value.func, ast.Name) and a.value.func.id == "next" and len(a.value.args) == 2 and not a.value.keywords and
                    isinstance(a.value.args[1], ast.Constant) and a.value.args[1].value is None and isinstance(a.value.args[0], ast.GeneratorExp)):
                continue
            g = a.value.args[0]
            if len(g.generators) != 1 or g.generators[0].is_async or not isinstance(g.generators[0].target, ast.Name):
                continue
            gen = g.generators[0]
            x = a.targets[0].id
            if not (isinstance(b, ast.If) and not b.orelse and isinstance(b.test, ast.Compare) and len(b.test.ops) == 1 and
                    isinstance(b.test.ops[0], ast.IsNot) and isinstance(b.test.left, ast.Name) and b.test.left.id == x and
                    isinstance(b.test.comparators[0], ast.Constant) and b.test.comparators[0].value is None and _always_exits(b.body)):
                continue
            inside = {id(n) for n in ast.walk(a)} | {id(n) for n in ast.walk(b)}
            if any(isinstance(n, ast.Name) and n.id == x and id(n) not in inside for n in ast.walk(fn)):
                continue
            if any(isinstance(n, (ast.Break, ast.Continue)) for t in b.body for n in ast.walk(t)) and _free_jumps(b.body):
                continue
            if not all(pure_expr(c) for c in gen.ifs) or not pure_expr(gen.iter):
                continue
            counter[0] += 1
            v = gen.target.id
            nv = "__cand%d" % counter[0] if any(isinstance(n, ast.Name) and n.id == v and id(n) not in {id(m) for m in ast.walk(g)} for n in ast.walk(fn)) else v
            rn = _Rename({v: nv}, {})
            elt = rn.visit(copy.deepcopy(g.elt))
            body = [ast.Assign(targets=[ast.Name(id=x, ctx=ast.Store())], value=elt)] + b.body
            for c in reversed(gen.ifs):
                body = [ast.If(test=rn.visit(copy.deepcopy(c)), body=body, orelse=[])]
            loop = ast.For(target=ast.Name(id=nv, ctx=ast.Store()), iter=gen.iter, body=body, orelse=[])
            ast.copy_location(loop, a)
            ast.fix_missing_locations(loop)
            blk[i - 1:i + 1] = [loop]
            k += 1
    return k


def _pure_search_body(stmts):
    """A loop body that either leaves the function or does nothing: nested `if <pure test>:` whose other statements always end in
    return / raise (falling through it has no effect at all)."""
    for t in stmts:
        if isinstance(t, ast.If) and not t.orelse and pure_expr(t.test):
            if _always_exits(t.body):
                continue
            if not _pure_search_body(t.body):
                return False
        else:
            return False
    return True


def _merge_bodies(b1, b2):
    if len(b1) == 1 and len(b2) == 1 and isinstance(b1[0], ast.If) and isinstance(b2[0], ast.If) and not b1[0].orelse and not b2[0].orelse and \
            src(b1[0].test) == src(b2[0].test) and not _always_exits(b1[0].body):
        m = ast.If(test=b1[0].test, body=_merge_bodies(b1[0].body, b2[0].body), orelse=[])
        return [ast.copy_location(m, b1[0])]
    return b1 + b2


def fuse_search_loops(fn):
    """for v in C: SEARCH(v)   [M]   for w in C: WORK(w)      ->      M; for v in C: SEARCH(v); WORK(v)
    where SEARCH either leaves the function or has no effect (pure tests), M are plain assignments of locals that SEARCH never
    mentions, and WORK only reads state and writes locals that SEARCH never mentions, without break / continue / return: when
    the first loop falls through, every SEARCH test was false, so interleaving the two loops changes nothing; when it exits at
    some element, the work done on earlier elements only touched locals that are dead at that exit."""
    k = 0
    again = True
    while again:
        again = False
        for blk in _blocks(fn):
            for i, L1 in enumerate(blk):
                if not (isinstance(L1, ast.For) and not L1.orelse and isinstance(L1.target, ast.Name) and _pure_search_body(L1.body) and pure_expr(L1.iter)):
                    continue
                j = i + 1
                while j < len(blk) and isinstance(blk[j], ast.Assign) and all(isinstance(t, ast.Name) for t in blk[j].targets) and pure_expr(blk[j].value):
                    j += 1
                if j >= len(blk):
                    continue
                L2 = blk[j]
                if not (isinstance(L2, ast.For) and not L2.orelse and isinstance(L2.target, ast.Name) and src(L2.iter) == src(L1.iter)):
                    continue
                M = blk[i + 1:j]
                names1 = {n.id for n in ast.walk(L1) if isinstance(n, ast.Name)}
                m_targets = {t.id for a in M for t in a.targets}
                if m_targets & names1:
                    continue
                w2 = set()
                okw = True
                for t in L2.body:
                    w = writes_of(t)
                    if "<state>" in w or "<heap>" in w or any(x.startswith("<heap") for x in w):
                        okw = False
                    w2 |= {x for x in w if not x.startswith("<")}
                if not okw or any(isinstance(n, (ast.Break, ast.Continue, ast.Return, ast.Raise, ast.Yield)) for t in L2.body for n in ast.walk(t)):
                    continue
                w2 -= {L2.target.id}
                if w2 & names1:
                    continue
                if any("." in x or "[" in x for x in w2):
                    continue
                # the loop variables: the second loop's variable is renamed to the first's (it must not be read after the loops)
                v1, v2 = L1.target.id, L2.target.id
                if v1 != v2 and v1.startswith("__") and not v2.startswith("__") and not any(isinstance(n, ast.Name) and n.id == v2 for n in ast.walk(L1)) and \
                        not any(isinstance(n, ast.Name) and n.id == v1 and not any(n is m for m in ast.walk(L1)) for n in ast.walk(fn)):
                    # keep the name the code itself uses for the element
                    L1.body = [_Rename({v1: v2}, {}).visit(t) for t in L1.body]
                    L1.target = ast.copy_location(ast.Name(id=v2, ctx=ast.Store()), L1.target)
                    v1 = v2
                if v1 != v2:
                    after_ids = {id(n) for t in blk[j + 1:] for n in ast.walk(t)}
                    if any(isinstance(n, ast.Name) and n.id == v2 and isinstance(n.ctx, ast.Load) and id(n) in after_ids for n in ast.walk(fn)):
                        continue
                    if any(isinstance(n, ast.Name) and n.id == v1 for n in ast.walk(L2)):
                        continue
                    body2 = [_Rename({v2: v1}, {}).visit(copy.deepcopy(t)) for t in L2.body]
                else:
                    body2 = L2.body
                L1.body = _merge_bodies(L1.body, body2)
                ast.fix_missing_locations(L1)
                blk[i:j + 1] = M + [L1]
                k += 1
                again = True
                break
            if again:
                break
    return k


def canonical_layer_getter(fn):
    """P.get_layer_node_list(d) -> P.get_node_list()[d]: the getter is `return self.node_list[depth]` (R03-OWN checks that on every
    run), so both designate the same layer object; one spelling is kept so that designators written either way compare equal."""
    k = [0]

    class T(ast.NodeTransformer):
        def visit_Call(self, n):
            self.generic_visit(n)
            if isinstance(n.func, ast.Attribute) and n.func.attr == "get_layer_node_list" and not isinstance(n.func.value, ast.Name) or \
                    (isinstance(n.func, ast.Attribute) and n.func.attr == "get_layer_node_list" and isinstance(n.func.value, ast.Name) and n.func.value.id != "self"):
                arg = None
                if len(n.args) == 1 and not n.keywords:
                    arg = n.args[0]
                elif not n.args and len(n.keywords) == 1 and n.keywords[0].arg == "depth":
                    arg = n.keywords[0].value
                if arg is not None:
                    k[0] += 1
                    base = ast.Call(func=ast.Attribute(value=n.func.value, attr="get_node_list", ctx=ast.Load()), args=[], keywords=[])
                    return ast.copy_location(ast.Subscript(value=base, slice=arg, ctx=ast.Load()), n)
            return n
    T().visit(fn)
    ast.fix_missing_locations(fn)
    return k[0]


def unzip_mapped(fn):
    """for a, b in zip(A, [K(v) for v in A]): BODY   ->   for a in A: b = K(a); BODY
    (the list of keys inline or a local bound once and used only here); K is side-effect free and BODY changes no object state,
    so computing each key when its element is reached gives the value it had when the list was built."""
    k = 0
    for blk in _blocks(fn):
        for st in list(blk):
            if not (isinstance(st, ast.For) and isinstance(st.target, ast.Tuple) and len(st.target.elts) == 2 and
                    all(isinstance(e, ast.Name) for e in st.target.elts) and isinstance(st.iter, ast.Call) and src(st.iter.func) == "zip" and
                    len(st.iter.args) == 2 and not st.iter.keywords):
                continue
            A, B = st.iter.args
            bdef = None
            if isinstance(B, ast.Name):
                occ = [n for n in ast.walk(fn) if isinstance(n, ast.Name) and n.id == B.id]
                ds = [t for t in blk if isinstance(t, ast.Assign) and len(t.targets) == 1 and isinstance(t.targets[0], ast.Name) and t.targets[0].id == B.id]
                if len(occ) != 2 or len(ds) != 1 or blk.index(ds[0]) > blk.index(st):
                    continue
                bdef = ds[0]
                comp = bdef.value
            else:
                comp = B
            if not (isinstance(comp, ast.ListComp) and len(comp.generators) == 1 and not comp.generators[0].ifs and
                    isinstance(comp.generators[0].target, ast.Name) and src(comp.generators[0].iter) == src(A) and pure_expr(comp.elt) and pure_expr(A)):
                continue
            if any("<state>" in writes_of(t) or any(x.startswith("<heap") for x in writes_of(t)) for t in st.body):
                continue
            if bdef is not None:
                between = blk[blk.index(bdef) + 1:blk.index(st)]
                if any("<state>" in writes_of(t) or any(x.startswith("<heap") for x in writes_of(t)) for t in between):
                    continue
                rd = {n.id for n in ast.walk(A) if isinstance(n, ast.Name)}
                if any(isinstance(n, ast.Name) and n.id in rd and isinstance(n.ctx, ast.Store) for t in between for n in ast.walk(t)):
                    continue
            a, b = st.target.elts[0].id, st.target.elts[1].id
            key = _Rename({}, {comp.generators[0].target.id: ast.Name(id=a, ctx=ast.Load())}).visit(copy.deepcopy(comp.elt))
            first = ast.Assign(targets=[ast.Name(id=b, ctx=ast.Store())], value=key)
            ast.copy_location(first, st)
            st.target = ast.copy_location(ast.Name(id=a, ctx=ast.Store()), st.target)
            st.iter = A
            st.body = [first] + st.body
            ast.fix_missing_locations(st)
            if bdef is not None:
                blk.remove(bdef)
            k += 1
    return k


def merge_same_branches(fn):
    """if A: S elif B: S [else: R]   ->   if A or B: S [else: R]      (identical branch bodies; short-circuit evaluation is the same)"""
    k = 0
    again = True
    while again:
        again = False
        for n in ast.walk(fn):
            if isinstance(n, ast.If) and len(n.orelse) == 1 and isinstance(n.orelse[0], ast.If):
                inner = n.orelse[0]
                if [src(t) for t in n.body] == [src(t) for t in inner.body]:
                    vals = (n.test.values if isinstance(n.test, ast.BoolOp) and isinstance(n.test.op, ast.Or) else [n.test]) + \
                           (inner.test.values if isinstance(inner.test, ast.BoolOp) and isinstance(inner.test.op, ast.Or) else [inner.test])
                    n.test = ast.copy_location(ast.BoolOp(op=ast.Or(), values=vals), n.test)
                    n.orelse = inner.orelse
                    ast.fix_missing_locations(n)
                    k += 1
                    again = True
                    break
    return k


def _free_jumps(stmts):
    """break / continue statements in stmts that are not inside a loop of stmts"""
    for t in stmts:
        if isinstance(t, (ast.Break, ast.Continue)):
            return True
        if isinstance(t, (ast.For, ast.While)):
            if _free_jumps(t.orelse):
                return True
            continue
        for field in ("body", "orelse", "finalbody"):
            if _free_jumps(getattr(t, field, None) or []):
                return True
        if isinstance(t, ast.Try):
            for h in t.handlers:
                if _free_jumps(h.body):
                    return True
    return False


def _own_breaks(block, out):
    """(block, index) of every `break` that leaves the loop whose body `block` is; False if one sits where it cannot be followed"""
    for idx, t in enumerate(block):
        if isinstance(t, ast.Break):
            out.append((block, idx))
        elif isinstance(t, ast.If):
            if not (_own_breaks(t.body, out) and _own_breaks(t.orelse, out)):
                return False
        elif isinstance(t, (ast.For, ast.While)):
            # the else clause of an inner loop belongs to this loop's body; its body's breaks are its own
            if not _own_breaks(t.orelse, out):
                return False
        elif isinstance(t, (ast.With, ast.Try)):
            if any(isinstance(x, ast.Break) for x in ast.walk(t)):
                return False
    return True


def flag_loops_to_else(fn):
    """f = A;  loop (no else clause) every break of which is directly preceded by `f = B`   (A, B literals; f a local that the loop
    does not mention otherwise and nothing between the initialisation and the loop mentions)
        ->   loop ... else: f = A
    The else clause runs exactly when the loop ends without a break, i.e. exactly when f would still hold A."""
    k = 0
    params = {a.arg for a in fn.args.args + fn.args.kwonlyargs + fn.args.posonlyargs}
    for blk in _blocks(fn):
        i = 0
        while i < len(blk):
            s = blk[i]
            i += 1
            if not (isinstance(s, (ast.For, ast.While)) and not s.orelse):
                continue
            brs = []
            if not _own_breaks(s.body, brs) or not brs:
                continue
            flags = set()
            sites = []
            for b, idx in brs:
                prev = b[idx - 1] if idx > 0 else None
                if isinstance(prev, ast.Assign) and len(prev.targets) == 1 and isinstance(prev.targets[0], ast.Name) and isinstance(prev.value, ast.Constant):
                    flags.add(prev.targets[0].id)
                    sites.append(prev)
                else:
                    flags.add(None)
            if len(flags) != 1 or None in flags:
                continue
            f = flags.pop()
            if f in params:
                continue
            pos = blk.index(s)
            init = [j for j in range(pos) if isinstance(blk[j], ast.Assign) and len(blk[j].targets) == 1 and isinstance(blk[j].targets[0], ast.Name) and
                    blk[j].targets[0].id == f and isinstance(blk[j].value, ast.Constant)]
            if not init:
                continue
            j = init[-1]
            if any(_mentions_name(t, f) for t in blk[j + 1:pos]):
                continue
            site_ids = {id(x) for st in sites for x in ast.walk(st)}
            if any(isinstance(n, ast.Name) and n.id == f and id(n) not in site_ids for n in ast.walk(s)):
                continue
            s.orelse = [blk[j]]
            del blk[j]
            i = blk.index(s) + 1
            k += 1
    if k:
        ast.fix_missing_locations(fn)
    return k


def _never_none(e, fn, depth=0):
    """The value of expression e is certainly not None: a non-None literal, a display, an element of a layer of the partition's
    layer table (layers hold cells only - C03's R03-OWN), or a local with one definition of that kind."""
    if isinstance(e, ast.Constant):
        return e.value is not None
    if isinstance(e, (ast.List, ast.Tuple, ast.Dict, ast.Set, ast.ListComp, ast.DictComp, ast.SetComp, ast.JoinedStr)):
        return True
    if isinstance(e, ast.Subscript) and isinstance(e.value, ast.Subscript) and not isinstance(e.slice, ast.Slice) and not isinstance(e.value.slice, ast.Slice):
        nl = e.value.value
        if src(nl) in ("self.partition.get_node_list()", "self.partition.node_list"):
            return True
        if isinstance(nl, ast.Name):
            defs = [par for par in ast.walk(fn) if isinstance(par, ast.Assign) and any(isinstance(t, ast.Name) and t.id == nl.id for t in par.targets)]
            stores = [n for n in ast.walk(fn) if isinstance(n, ast.Name) and n.id == nl.id and isinstance(n.ctx, (ast.Store, ast.Del))]
            params = {a.arg for a in fn.args.args + fn.args.kwonlyargs + fn.args.posonlyargs}
            return bool(defs) and len(defs) == len(stores) and nl.id not in params and \
                all(src(d.value) in ("self.partition.get_node_list()", "self.partition.node_list") for d in defs)
        return False
    if isinstance(e, ast.Name) and depth < 3:
        stores = [n for n in ast.walk(fn) if isinstance(n, ast.Name) and n.id == e.id and isinstance(n.ctx, (ast.Store, ast.Del))]
        defs = [par for par in ast.walk(fn) if isinstance(par, ast.Assign) and len(par.targets) == 1 and isinstance(par.targets[0], ast.Name) and
                par.targets[0].id == e.id]
        params = {a.arg for a in fn.args.args + fn.args.kwonlyargs + fn.args.posonlyargs}
        return len(stores) == 1 and len(defs) == 1 and e.id not in params and _never_none(defs[0].value, fn, depth + 1)
    return False


def thread_bool_flags(fn):
    """T; if <test on f>: X else: Y   where T is an if/else tree (or a loop with an else clause) every path of which ends with an
    assignment to the inliner temporary f, and the test is `f`, `not f`, `f is None` or `f is not None`: the test statement is
    moved to the end of each of those paths (tail duplication - always semantics-preserving), and decided on the spot where the
    assigned value is a literal (jump threading)."""
    k = 0

    def leaves(stmts, f):
        """assignment sites (block, index) at the end of every path through stmts, or None"""
        if not stmts:
            return None
        last = stmts[-1]
        if isinstance(last, ast.Break) and len(stmts) >= 2:
            r = leaves(stmts[:-1], f)
            if r is None:
                return None
            # indices refer to the original list
            return [(stmts if b is not stmts[:-1] and False else b, i) for b, i in r] if False else _rebase(r, stmts)
        if isinstance(last, ast.Assign) and len(last.targets) == 1 and isinstance(last.targets[0], ast.Name) and last.targets[0].id == f:
            return [(stmts, len(stmts) - 1)]
        if isinstance(last, ast.If) and last.orelse:
            a, b = leaves(last.body, f), leaves(last.orelse, f)
            if a is None or b is None:
                return None
            return a + b
        if isinstance(last, (ast.For, ast.While)) and last.orelse:
            # every break of the loop is preceded by an assignment to f, and the else clause ends with one
            b = leaves(last.orelse, f)
            if b is None:
                return None
            sites = []
            ok = [True]

            def scan(block):
                for idx, t in enumerate(block):
                    if isinstance(t, ast.Break):
                        prev = block[idx - 1] if idx > 0 else None
                        if isinstance(prev, ast.Assign) and len(prev.targets) == 1 and isinstance(prev.targets[0], ast.Name) and prev.targets[0].id == f:
                            sites.append((block, idx - 1))
                        else:
                            ok[0] = False
                    elif isinstance(t, ast.If):
                        scan(t.body)
                        scan(t.orelse)
                    elif isinstance(t, (ast.For, ast.While)):
                        # breaks of an inner loop's body do not leave this one; those of its else clause do
                        scan(t.orelse)
                    elif isinstance(t, (ast.With, ast.Try)) and any(isinstance(x, ast.Break) for x in ast.walk(t)):
                        ok[0] = False
            scan(last.body)
            if not ok[0] or not sites:
                return None
            return sites + b
        return None

    def _rebase(r, stmts):
        # leaves() was called on a slice copy: map (slice, i) back to the original list (same positions)
        out = []
        for b, i in r:
            out.append((stmts, i) if len(b) == len(stmts) - 1 and all(x is y for x, y in zip(b, stmts)) else (b, i))
        return out

    def static_truth(test, f, value):
        """truth of the test when f holds the literal `value`; None if not decidable"""
        t, pol = test, True
        while isinstance(t, ast.UnaryOp) and isinstance(t.op, ast.Not):
            t, pol = t.operand, not pol
        if isinstance(t, ast.Name) and t.id == f:
            return bool(value) == pol
        if isinstance(t, ast.Compare) and len(t.ops) == 1 and isinstance(t.left, ast.Name) and t.left.id == f and \
                isinstance(t.comparators[0], ast.Constant) and t.comparators[0].value is None and isinstance(t.ops[0], (ast.Is, ast.IsNot)):
            r = (value is None) if isinstance(t.ops[0], ast.Is) else (value is not None)
            return r == pol
        return None

    def test_on(test, f):
        t = test
        while isinstance(t, ast.UnaryOp) and isinstance(t.op, ast.Not):
            t = t.operand
        if isinstance(t, ast.Name) and t.id == f:
            return True
        return isinstance(t, ast.Compare) and len(t.ops) == 1 and isinstance(t.left, ast.Name) and t.left.id == f and \
            isinstance(t.comparators[0], ast.Constant) and t.comparators[0].value is None and isinstance(t.ops[0], (ast.Is, ast.IsNot))
    again = True
    while again:
        again = False
        for blk in _blocks(fn):
            for i in range(1, len(blk)):
                s = blk[i]
                if not isinstance(s, ast.If):
                    continue
                names = {n.id for n in ast.walk(s.test) if isinstance(n, ast.Name)}
                params = {a.arg for a in fn.args.args + fn.args.kwonlyargs + fn.args.posonlyargs}
                cand = [n for n in names if n not in params]
                if len(cand) != 1 or not test_on(s.test, cand[0]):
                    continue
                f = cand[0]
                prev = blk[i - 1]
                if isinstance(prev, ast.Assign):
                    continue
                lv = leaves([prev], f)
                if lv is None:
                    continue
                lv = [(prev_b if prev_b is not None else b, idx) for (b, idx), prev_b in zip(lv, [None] * len(lv))]
                if isinstance(prev, (ast.For, ast.While)) and _free_jumps(s.body + s.orelse):
                    continue
                # f is written only at the leaves (one initialising statement directly before the tree is tolerated)
                leaf_targets = {id(b[idx].targets[0]) for b, idx in lv}
                writes_f = [n for n in ast.walk(fn) if isinstance(n, ast.Name) and n.id == f and isinstance(n.ctx, ast.Store)]
                extra = [w for w in writes_f if id(w) not in leaf_targets]
                if extra:
                    if len(extra) != 1 or i < 2 or not (isinstance(blk[i - 2], ast.Assign) and blk[i - 2].targets[0] is extra[0]):
                        continue
                # f is read only inside the test statement
                inside = {id(n) for n in ast.walk(s)}
                if any(isinstance(n, ast.Name) and n.id == f and isinstance(n.ctx, ast.Load) and id(n) not in inside for n in ast.walk(fn)):
                    continue
                for site_blk, idx in lv:
                    val = site_blk[idx].value
                    truth = static_truth(s.test, f, val.value) if isinstance(val, ast.Constant) else None
                    if truth is None and not isinstance(val, ast.Constant) and _never_none(val, fn):
                        t9, pol9 = s.test, True
                        while isinstance(t9, ast.UnaryOp) and isinstance(t9.op, ast.Not):
                            t9, pol9 = t9.operand, not pol9
                        if isinstance(t9, ast.Compare) and isinstance(t9.ops[0], (ast.Is, ast.IsNot)):
                            truth = isinstance(t9.ops[0], ast.IsNot) == pol9
                    if truth is None:
                        tail = [copy.deepcopy(s)]
                        site_blk[idx + 1:idx + 1] = tail
                    else:
                        tail = copy.deepcopy(s.body if truth else s.orelse)
                        uses = any(isinstance(n, ast.Name) and n.id == f for t in tail for n in ast.walk(t))
                        if uses:
                            site_blk[idx + 1:idx + 1] = tail
                        else:
                            site_blk[idx:idx + 1] = tail if tail else [ast.copy_location(ast.Pass(), site_blk[idx])]
                if extra:
                    del blk[i - 2]
                    i -= 1
                del blk[i]
                ast.fix_missing_locations(fn)
                k += 1
                again = True
                break
            if again:
                break
    return k


def cse_const_aliases(fn):
    """A local bound exactly once, at the top level of the function, to an expression that always denotes the same object
    (`node_list = self.partition.get_node_list()`): later spellings of that expression are replaced by the local."""
    k = 0
    for i, s in enumerate(fn.body):
        if not (isinstance(s, ast.Assign) and len(s.targets) == 1 and isinstance(s.targets[0], ast.Name) and
                isinstance(s.value, (ast.Call, ast.Attribute))):
            continue
        x = s.targets[0].id
        if sum(1 for n in ast.walk(fn) if isinstance(n, ast.Name) and n.id == x and isinstance(n.ctx, (ast.Store, ast.Del))) != 1:
            continue
        if reads(s.value):
            continue        # not a constant designator
        text = src(s.value)

        class R(ast.NodeTransformer):
            def generic_visit(self, n):
                nonlocal k
                if isinstance(n, ast.expr) and isinstance(n, (ast.Call, ast.Attribute)) and isinstance(getattr(n, "ctx", ast.Load()), ast.Load) \
                        and src(n) == text:
                    k += 1
                    return ast.copy_location(ast.Name(id=x, ctx=ast.Load()), n)
                return super().generic_visit(n)
        for j in range(i + 1, len(fn.body)):
            fn.body[j] = R().visit(fn.body[j])
            ast.fix_missing_locations(fn.body[j])
    return k


def rename_result_temps(fn):
    """`__tmp = E` ... `x = __tmp` (single definition, single use, x untouched in between, same block) -> `x = E` at the definition."""
    k = 0
    for b in _blocks(fn):
        i = 0
        while i < len(b):
            s = b[i]
            if isinstance(s, ast.Assign) and len(s.targets) == 1 and isinstance(s.targets[0], ast.Name) and isinstance(s.value, ast.Name) and \
                    s.value.id.startswith("__") and not s.targets[0].id.startswith("__"):
                tmp, x = s.value.id, s.targets[0].id
                defs = [n for n in ast.walk(fn) if isinstance(n, ast.Name) and n.id == tmp and isinstance(n.ctx, ast.Store)]
                uses = [n for n in ast.walk(fn) if isinstance(n, ast.Name) and n.id == tmp and isinstance(n.ctx, ast.Load)]
                d = [j for j in range(i) if isinstance(b[j], ast.Assign) and len(b[j].targets) == 1 and isinstance(b[j].targets[0], ast.Name)
                     and b[j].targets[0].id == tmp]
                if len(defs) == 1 and len(uses) == 1 and len(d) == 1 and \
                        not any(isinstance(n, ast.Name) and n.id == x for t in b[d[0]:i] for n in ast.walk(t)):
                    b[d[0]].targets[0].id = x
                    del b[i]
                    k += 1
                    continue
            i += 1
    return k


def expand_return_ifexp(fn):
    """`return A if c else B` -> `if c: return A` / `else: return B`; likewise `x = A if c else B` for a plain name x."""
    k = 0
    for b in _blocks(fn):
        i = 0
        while i < len(b):
            s = b[i]
            if isinstance(s, ast.Assign) and len(s.targets) == 1 and isinstance(s.value, ast.IfExp) and \
                    (isinstance(s.targets[0], ast.Name) or (isinstance(s.targets[0], ast.Attribute) and isinstance(s.targets[0].value, ast.Name))):
                v = s.value
                new = ast.If(test=v.test, body=[ast.Assign(targets=[copy.deepcopy(s.targets[0])], value=v.body)],
                             orelse=[ast.Assign(targets=[copy.deepcopy(s.targets[0])], value=v.orelse)])
                ast.copy_location(new, s)
                ast.fix_missing_locations(new)
                b[i] = new
                k += 1
                continue
            if isinstance(s, ast.Return) and isinstance(s.value, ast.IfExp):
                v = s.value
                new = ast.If(test=v.test, body=[ast.Return(value=v.body)], orelse=[ast.Return(value=v.orelse)])
                ast.copy_location(new, s)
                ast.fix_missing_locations(new)
                b[i] = new
                k += 1
                continue        # re-examine: nested conditional expressions
            i += 1
    return k


def split_fold_accumulators(fn):
    """v = X[0]; [plain assignments;] for c in X[1:]: if key(c) >= key(v): v = c        where v is ALSO defined elsewhere (a cursor
    that doubles as the running best)   ->   the scan gets its own variable m (v renamed from its initialisation to the end of
    the loop) followed by `v = m`.  A renaming of one live range: the value of v after the scan is the same."""
    k = 0
    for blk in _blocks(fn):
        j = 1
        while j < len(blk):
            L = blk[j]
            j += 1
            if not (isinstance(L, ast.For) and not L.orelse and isinstance(L.target, ast.Name)):
                continue
            c = L.target.id
            cands = {t.targets[0].id for t in ast.walk(L) if isinstance(t, ast.Assign) and len(t.targets) == 1 and isinstance(t.targets[0], ast.Name) and
                     isinstance(t.value, ast.Name) and t.value.id == c}
            for v in sorted(cands):
                stores_in_L = [n for n in ast.walk(L) if isinstance(n, ast.Name) and n.id == v and isinstance(n.ctx, ast.Store)]
                if len(stores_in_L) != 1 or v == c:
                    continue
                li = blk.index(L)
                ii = None
                for q in range(li - 1, -1, -1):
                    t = blk[q]
                    if not isinstance(t, ast.Assign):
                        break
                    if len(t.targets) == 1 and isinstance(t.targets[0], ast.Name) and t.targets[0].id == v:
                        ii = q
                        break
                if ii is None or _mentions_name(blk[ii].value, v):
                    continue
                region = blk[ii:li + 1]
                region_ids = {id(n) for t in region for n in ast.walk(t)}
                others = [n for n in ast.walk(fn) if isinstance(n, ast.Name) and n.id == v and isinstance(n.ctx, ast.Store) and id(n) not in region_ids]
                if not others:
                    continue
                taken = {n.id for n in ast.walk(fn) if isinstance(n, ast.Name)}
                m = "__best_%s" % v
                while m in taken:
                    m += "_"
                rn = _Rename({v: m}, {})
                for q in range(ii, li + 1):
                    blk[q] = rn.visit(blk[q])
                back = ast.Assign(targets=[ast.Name(id=v, ctx=ast.Store())], value=ast.Name(id=m, ctx=ast.Load()))
                ast.copy_location(back, L)
                ast.fix_missing_locations(back)
                blk.insert(li + 1, back)
                ast.fix_missing_locations(fn)
                k += 1
                j = li + 2
                break
    return k


def open_generator_iters(fn):
    """for v in (E for w in S if P): BODY   ->   for w in S: if P: v = E; BODY      (a generator expression is lazy: its filter and
    element are evaluated exactly when the loop asks for the next element, which is what the rewritten loop does)"""
    k = 0
    for n in ast.walk(fn):
        if not (isinstance(n, ast.For) and isinstance(n.iter, ast.GeneratorExp) and len(n.iter.generators) == 1 and not n.iter.generators[0].is_async and
                isinstance(n.iter.generators[0].target, ast.Name) and not n.orelse):
            continue
        ge = n.iter
        g = ge.generators[0]
        w = g.target.id
        inside = {id(x) for x in ast.walk(ge)}
        clash = any(isinstance(x, ast.Name) and x.id == w and id(x) not in inside for x in ast.walk(fn))
        same = isinstance(n.target, ast.Name) and n.target.id == w and isinstance(ge.elt, ast.Name) and ge.elt.id == w
        if clash and not same:
            # the comprehension variable would capture / clobber a local of the function: use a fresh name
            taken = {x.id for x in ast.walk(fn) if isinstance(x, ast.Name)}
            nw = "__it_%s" % w
            while nw in taken:
                nw += "_"
            rn = _Rename({w: nw}, {})
            ge = rn.visit(copy.deepcopy(ge))
            g = ge.generators[0]
            w = nw
        body = n.body
        if not (isinstance(n.target, ast.Name) and isinstance(ge.elt, ast.Name) and ge.elt.id == w and n.target.id == w):
            bind = ast.Assign(targets=[n.target], value=ge.elt)
            ast.copy_location(bind, n)
            body = [bind] + body
        for c in reversed(g.ifs):
            body = [ast.copy_location(ast.If(test=c, body=body, orelse=[]), n)]
        n.target = ast.copy_location(ast.Name(id=w, ctx=ast.Store()), n.target)
        n.iter = g.iter
        n.body = body
        ast.fix_missing_locations(n)
        k += 1
    return k


def dict_calls_to_displays(fn):
    """dict(a=x, b=y) (keywords only) -> {'a': x, 'b': y}: the same dictionary, written as a display"""
    k = [0]

    class T(ast.NodeTransformer):
        def visit_Call(self, n):
            self.generic_visit(n)
            if isinstance(n.func, ast.Name) and n.func.id == "dict" and not n.args and n.keywords and all(kw.arg is not None for kw in n.keywords):
                k[0] += 1
                return ast.copy_location(ast.Dict(keys=[ast.Constant(value=kw.arg) for kw in n.keywords], values=[kw.value for kw in n.keywords]), n)
            return n
    if "dict" in {x.id for x in ast.walk(fn) if isinstance(x, ast.Name) and isinstance(x.ctx, ast.Store)}:
        return 0
    T().visit(fn)
    ast.fix_missing_locations(fn)
    return k[0]


def islice_to_slices(fn):
    """for v in islice(X, a, None) -> for v in X[a:];  islice(X, n) -> zip(range(n), X)-style truncation is left to the layer
    rules; only the `tail of a list` form is rewritten, for X a children list / designator (a list, so slicing yields the same
    elements in the same order)."""
    k = 0
    for n in ast.walk(fn):
        if isinstance(n, ast.For) and isinstance(n.iter, ast.Call) and src(n.iter.func) in ("itertools.islice", "islice") and not n.iter.keywords:
            a = n.iter.args
            if len(a) == 3 and isinstance(a[2], ast.Constant) and a[2].value is None and simple_arg(a[0]) and \
                    (isinstance(a[0], ast.Name) or (isinstance(a[0], ast.Call) and isinstance(a[0].func, ast.Attribute) and a[0].func.attr == "get_children")):
                n.iter = ast.copy_location(ast.Subscript(value=a[0], slice=ast.Slice(lower=a[1], upper=None, step=None), ctx=ast.Load()), n.iter)
                ast.fix_missing_locations(n)
                k += 1
    return k


def rematerialise_loop_tests(fn):
    """x = E; while <test on x>: ...; x = E        (every definition of the local x has the same side-effect-free right-hand side E,
    and on every path from a definition to the loop test nothing that E reads is written)   ->   the test reads E itself.
    `children = node.get_children(); while children is not None: ...; node = best; children = node.get_children()` is the loop
    `while node.get_children() is not None`."""
    from . import cfg as C
    from . import effects as E
    k = 0
    g = None
    for w in [n for n in ast.walk(fn) if isinstance(n, ast.While)]:
        names = {n.id for n in ast.walk(w.test) if isinstance(n, ast.Name)}
        for x in sorted(names):
            defs = [n for n in ast.walk(fn) if isinstance(n, ast.Assign) and len(n.targets) == 1 and isinstance(n.targets[0], ast.Name) and n.targets[0].id == x]
            stores = [n for n in ast.walk(fn) if isinstance(n, ast.Name) and n.id == x and isinstance(n.ctx, (ast.Store, ast.Del))]
            if len(defs) < 2 or len(defs) != len(stores):
                continue
            rhs = {src(d.value) for d in defs}
            if len(rhs) != 1 or not pure_expr(defs[0].value) or isinstance(defs[0].value, (ast.Constant, ast.Name)):
                continue
            if x in {a.arg for a in fn.args.args}:
                continue
            val = defs[0].value
            deps = {n.id for n in ast.walk(val) if isinstance(n, ast.Name)}
            if g is None:
                try:
                    g = C.CFG(fn)
                except Exception:
                    return k
            try:
                tnode = g.node_of(w)
                dnodes = [g.node_of(d) for d in defs]
            except Exception:
                continue
            # every path into the test comes from a definition without passing a store to a dependency of E (or a state change
            # E could observe: E is a getter chain on locals, so only rebinding the locals matters, plus tree growth for children)
            bad = False
            writers = [n for n in g.nodes if n.ast is not None and n not in dnodes and
                       ((E.stored_locs(n) & deps) or any(isinstance(c, ast.Call) and isinstance(c.func, ast.Attribute) and c.func.attr in TREE_GROWERS
                                                         for r in E.node_exprs(n) for c in ast.walk(r)))]
            if g.paths_avoiding(g.entry, tnode, dnodes):
                bad = True
            for wn in writers:
                if g.paths_avoiding(wn, tnode, dnodes):
                    bad = True
            if bad:
                continue

            class Sub(ast.NodeTransformer):
                def visit_Name(self, n):
                    if n.id == x and isinstance(n.ctx, ast.Load):
                        return ast.copy_location(copy.deepcopy(val), n)
                    return n
            w.test = Sub().visit(w.test)
            ast.fix_missing_locations(w)
            k += 1
    return k


TREE_GETTERS = {"get_children", "get_parent", "get_depth", "get_index", "get_node_list", "get_layer_node_list", "get_root", "get_domain", "get_cpoint"}


def par_of(root, node):
    for a in ast.walk(root):
        for c in ast.iter_child_nodes(a):
            if c is node:
                return a
    return None


def rematerialise_same_rhs(fn, known):
    """A NEW local x all of whose definitions have the same side-effect-free right-hand side E (a getter chain on locals):
    a read of x is a read of E wherever, on every path from a definition to that read, nothing E depends on is rebound and the
    tree does not grow.  `c = n.get_children(); if c is None: expand(n); c = n.get_children(); use(c)` reads n.get_children()."""
    from . import cfg as C
    from . import effects as E
    params = {a.arg for a in fn.args.args + fn.args.kwonlyargs + fn.args.posonlyargs}
    cands = {}
    for n in ast.walk(fn):
        if isinstance(n, ast.Assign) and len(n.targets) == 1 and isinstance(n.targets[0], ast.Name):
            cands.setdefault(n.targets[0].id, []).append(n)
    k = 0
    g = None
    for x, defs in sorted(cands.items()):
        if x in known or x in params or x.startswith("__") or len(defs) < 2:
            continue
        stores = [n for n in ast.walk(fn) if isinstance(n, ast.Name) and n.id == x and isinstance(n.ctx, (ast.Store, ast.Del))]
        if len(stores) != len(defs) or len({src(d.value) for d in defs}) != 1:
            continue
        val = defs[0].value
        if not pure_expr(val) or not simple_arg(val) or isinstance(val, (ast.Constant, ast.Name)) or _mentions_name(val, x):
            continue
        if any(isinstance(m, (ast.FunctionDef, ast.Lambda, ast.ListComp, ast.GeneratorExp, ast.SetComp, ast.DictComp)) and _mentions_name(m, x)
               for m in ast.walk(fn) if m is not fn):
            continue
        deps = {n.id for n in ast.walk(val) if isinstance(n, ast.Name)}
        # attribute chains read by E (`self.loc` in `cs[self.loc]`) are dependencies as well
        deps |= {src(n) for n in ast.walk(val) if isinstance(n, ast.Attribute) and not isinstance(par_of(val, n), ast.Call)}
        other_getters = any(isinstance(c, ast.Call) and not (isinstance(c.func, ast.Attribute) and c.func.attr in TREE_GETTERS) and
                            not src(c.func).startswith(PURE_NS) and not (isinstance(c.func, ast.Name) and c.func.id in PURE_CALL_NAMES)
                            for c in ast.walk(val))
        if g is None:
            try:
                g = C.CFG(fn)
            except Exception:
                return k
        try:
            dnodes = [g.node_of(d) for d in defs]
        except Exception:
            continue
        writers = [n for n in g.nodes if n.ast is not None and n not in dnodes and
                   ((E.stored_locs(n) & deps) or any(isinstance(c, ast.Call) and isinstance(c.func, ast.Attribute) and c.func.attr in TREE_GROWERS
                                                     for r in E.node_exprs(n) for c in ast.walk(r)) or
                    (other_getters and any("<state>" in writes_of(ast.Expr(value=r)) for r in E.node_exprs(n))))]
        loads = [n for n in ast.walk(fn) if isinstance(n, ast.Name) and n.id == x and isinstance(n.ctx, ast.Load)]
        ok = bool(loads)
        for u in loads:
            try:
                un = g.node_of(u)
            except Exception:
                ok = False
                break
            # (a statement that reads x and then rebinds a dependency - `n = x[k]` - reads before it writes: it is not a writer for
            # its own read; a path from it round a loop back to itself must still pass a definition)
            if un in dnodes or g.paths_avoiding(g.entry, un, dnodes) or any(g.paths_avoiding(wn, un, dnodes) for wn in writers if wn is not un) or \
                    (un in writers and any(s2 is un or g.paths_avoiding(s2, un, dnodes) for s2 in g.G.successors(un) if s2 not in dnodes)):
                ok = False
                break
        if not ok:
            continue
        par = {}
        for a in ast.walk(fn):
            for c2 in ast.iter_child_nodes(a):
                par[id(c2)] = a
        for u in loads:
            p1 = par.get(id(u))
            new = ast.copy_location(copy.deepcopy(val), u)
            for field, v2 in ast.iter_fields(p1):
                if v2 is u:
                    setattr(p1, field, new)
                elif isinstance(v2, list):
                    for i2, e2 in enumerate(v2):
                        if e2 is u:
                            v2[i2] = new
        for blk in _blocks(fn):
            for d in defs:
                if d in blk:
                    blk.remove(d)
                    if not blk:
                        blk.append(ast.copy_location(ast.Pass(), d))
        ast.fix_missing_locations(fn)
        g = None
        k += 1
    return k


def forward_copy_temps(fn):
    """An inliner temporary T all of whose definitions are `T = v` for one and the same variable v, with v not rebound on any path
    from a definition to a use of T: T is v - the uses read v and the copies are dropped."""
    from . import cfg as C
    from . import effects as E
    k = 0
    again = True
    while again:
        again = False
        cands = {}
        for n in ast.walk(fn):
            if isinstance(n, ast.Assign) and len(n.targets) == 1 and isinstance(n.targets[0], ast.Name) and n.targets[0].id.startswith("__") and \
                    isinstance(n.value, ast.Name):
                cands.setdefault(n.targets[0].id, []).append(n)
        g = None
        for T, defs in sorted(cands.items()):
            stores = [n for n in ast.walk(fn) if isinstance(n, ast.Name) and n.id == T and isinstance(n.ctx, (ast.Store, ast.Del))]
            if len(stores) != len(defs) or len({d.value.id for d in defs}) != 1:
                continue
            v = defs[0].value.id
            if v == T:
                continue
            loads = [n for n in ast.walk(fn) if isinstance(n, ast.Name) and n.id == T and isinstance(n.ctx, ast.Load)]
            if not loads:
                continue
            if g is None:
                try:
                    g = C.CFG(fn)
                except Exception:
                    return k
            try:
                dn = [g.node_of(d) for d in defs]
                un = [g.node_of(u) for u in loads]
            except Exception:
                continue
            writers = [n for n in g.nodes if n.ast is not None and n not in dn and v in E.stored_locs(n)]
            ok = True
            for u in un:
                if g.paths_avoiding(g.entry, u, dn):
                    ok = False
                for w in writers:
                    if w is not u and g.paths_avoiding(w, u, dn):
                        ok = False
            if not ok:
                continue
            for u in loads:
                u.id = v
            for blk in _blocks(fn):
                for d in defs:
                    if d in blk:
                        blk.remove(d)
                        if not blk:
                            blk.append(ast.copy_location(ast.Pass(), d))
            k += 1
            again = True
            break
    return k


def coalesce_inout(fn):
    """__p = x; ...(x not mentioned)...; x = __p      the inlined helper worked on a copy of the caller's variable and handed it
    back: the region works on x itself."""
    k = 0
    again = True
    while again:
        again = False
        for blk in _blocks(fn):
            for i, a in enumerate(blk):
                if not (isinstance(a, ast.Assign) and len(a.targets) == 1 and isinstance(a.targets[0], ast.Name) and a.targets[0].id.startswith("__") and
                        isinstance(a.value, ast.Name) and not a.value.id.startswith("__")):
                    continue
                P, x = a.targets[0].id, a.value.id
                j = None
                for q in range(i + 1, len(blk)):
                    b = blk[q]
                    if isinstance(b, ast.Assign) and len(b.targets) == 1 and isinstance(b.targets[0], ast.Name) and b.targets[0].id == x and \
                            isinstance(b.value, ast.Name) and b.value.id == P:
                        j = q
                        break
                    if _mentions_name(b, x):
                        break
                if j is None:
                    continue
                inside = {id(n) for t in blk[i:j + 1] for n in ast.walk(t)}
                if any(isinstance(n, ast.Name) and n.id == P and id(n) not in inside for n in ast.walk(fn)):
                    continue
                rn = _Rename({P: x}, {})
                for q in range(i + 1, j):
                    blk[q] = rn.visit(blk[q])
                del blk[j]
                del blk[i]
                ast.fix_missing_locations(fn)
                k += 1
                again = True
                break
            if again:
                break
    return k


def expand_dict_splats(fn):
    """f(**d) where d is a local bound exactly once to a dict display with constant string keys, never mutated or passed
    elsewhere, and whose value expressions are not affected between the display and the call: the keywords are written out."""
    k = 0
    for b in _blocks(fn):
        for i, s in enumerate(b):
            if not (isinstance(s, ast.Assign) and len(s.targets) == 1 and isinstance(s.targets[0], ast.Name) and isinstance(s.value, ast.Dict)):
                continue
            d = s.targets[0].id
            dv = s.value
            if not dv.keys or any(not (isinstance(kk, ast.Constant) and isinstance(kk.value, str) and kk.value.isidentifier()) for kk in dv.keys):
                continue
            occ = [n for n in ast.walk(fn) if isinstance(n, ast.Name) and n.id == d]
            stores = [n for n in occ if isinstance(n.ctx, (ast.Store, ast.Del))]
            if len(stores) != 1:
                continue
            par = {}
            for a in ast.walk(fn):
                for c2 in ast.iter_child_nodes(a):
                    par[id(c2)] = a
            loads = [n for n in occ if isinstance(n.ctx, ast.Load)]
            if not loads or not all(isinstance(par.get(id(n)), ast.keyword) and par[id(n)].arg is None for n in loads):
                continue        # used in some other way (subscript store, passed along, iterated)
            if not all(pure_expr(v) for v in dv.values):
                continue
            deps = set()
            for v in dv.values:
                deps |= reads(v)
            later = b[i + 1:]
            inside = [n for t in later for n in ast.walk(t) if isinstance(n, ast.Name) and n.id == d and isinstance(n.ctx, ast.Load)]
            if len(inside) != len(loads) or not _uses_safe(later, d, deps):
                continue
            for n in loads:
                kwn = par[id(n)]
                call = par[id(kwn)]
                idx = call.keywords.index(kwn)
                call.keywords[idx:idx + 1] = [ast.keyword(arg=kk.value, value=copy.deepcopy(v)) for kk, v in zip(dv.keys, dv.values)]
                ast.fix_missing_locations(call)
            b.remove(s)
            k += 1
            return k + expand_dict_splats(fn)
    return k


def open_inline_splats(fn):
    """f(x=1, **{'a': u, 'b': v}) -> f(x=1, a=u, b=v): a dictionary display with constant string keys splatted in place."""
    k = 0
    for n in ast.walk(fn):
        if isinstance(n, ast.Call) and any(kw.arg is None and isinstance(kw.value, ast.Dict) for kw in n.keywords):
            new = []
            ok = True
            for kw in n.keywords:
                if kw.arg is None and isinstance(kw.value, ast.Dict):
                    if not all(isinstance(x, ast.Constant) and isinstance(x.value, str) and x.value.isidentifier() for x in kw.value.keys):
                        ok = False
                        break
                    new += [ast.keyword(arg=x.value, value=v) for x, v in zip(kw.value.keys, kw.value.values)]
                else:
                    new.append(kw)
            names = [kw.arg for kw in new if kw.arg]
            if ok and len(names) == len(set(names)):
                n.keywords = new
                ast.fix_missing_locations(n)
                k += 1
    return k


def unroll_literal_loops(fn, limit=8):
    """`for a, b in ((1, x), (2, y)): BODY` over a literal tuple/list of at most `limit` elements whose loop variables are not
    assigned in BODY and not used after the loop, without break/continue: BODY is repeated with the elements substituted."""
    k = 0
    # `table = ((a, "x"), (b, "y")); for u, v in table:` - a local bound once to a display and used only as this loop's iterable,
    # with nothing in between that rebinds what the display reads: the display is the iterable
    for b in _blocks(fn):
        for s in list(b):
            if isinstance(s, ast.For) and isinstance(s.iter, ast.Name):
                nm = s.iter.id
                occ = [n for n in ast.walk(fn) if isinstance(n, ast.Name) and n.id == nm]
                if len(occ) != 2:
                    continue
                d = [t for t in b if isinstance(t, ast.Assign) and len(t.targets) == 1 and isinstance(t.targets[0], ast.Name) and t.targets[0].id == nm and
                     isinstance(t.value, (ast.Tuple, ast.List))]
                if len(d) != 1 or b.index(d[0]) > b.index(s):
                    continue
                rd = {n.id for n in ast.walk(d[0].value) if isinstance(n, ast.Name)}
                between = b[b.index(d[0]) + 1:b.index(s)]
                if any(isinstance(n, ast.Name) and n.id in rd and isinstance(n.ctx, ast.Store) for t in between for n in ast.walk(t)) or \
                        any("<state>" in writes_of(t) for t in between) and any(isinstance(n, (ast.Attribute, ast.Call, ast.Subscript)) for n in ast.walk(d[0].value)):
                    continue
                s.iter = d[0].value
                b.remove(d[0])
    for b in _blocks(fn):
        i = 0
        while i < len(b):
            s = b[i]
            if isinstance(s, ast.For) and not s.orelse and isinstance(s.iter, (ast.Tuple, ast.List)) and 0 < len(s.iter.elts) <= limit and \
                    not any(isinstance(x, (ast.Break, ast.Continue)) for t in s.body for x in ast.walk(t)):
                tg = s.target
                names = [tg.id] if isinstance(tg, ast.Name) else ([e.id for e in tg.elts] if isinstance(tg, (ast.Tuple, ast.List)) and
                                                                  all(isinstance(e, ast.Name) for e in tg.elts) else None)
                ok = names is not None
                if ok and not isinstance(tg, ast.Name):
                    ok = all(isinstance(e, (ast.Tuple, ast.List)) and len(e.elts) == len(names) for e in s.iter.elts)
                if ok:
                    ok = not any(isinstance(x, ast.Name) and x.id in names and isinstance(x.ctx, (ast.Store, ast.Del)) for t in s.body for x in ast.walk(t))
                    ok = ok and all(simple_arg(v) for e in s.iter.elts for v in ([e] if isinstance(tg, ast.Name) else e.elts))
                    loop_ids = {id(x) for x in ast.walk(s)}
                    ok = ok and not any(isinstance(x, ast.Name) and x.id in names and id(x) not in loop_ids for x in ast.walk(fn))
                    # the substituted expressions must not be affected by the body (they are re-read at every use)
                    if ok:
                        deps = set()
                        for e in s.iter.elts:
                            deps |= reads(e)
                        ok = not any(writes_of(t) & deps for t in s.body)
                if ok:
                    new = []
                    for e in s.iter.elts:
                        vals = [e] if isinstance(tg, ast.Name) else list(e.elts)
                        rn = _Rename({}, dict(zip(names, vals)))
                        for t in s.body:
                            c = rn.visit(copy.deepcopy(t))
                            ast.fix_missing_locations(c)
                            new.append(c)
                    b[i:i + 1] = new
                    k += 1
                    continue
            i += 1
    return k


def dispatch_tables(tree):
    """Module-level names bound exactly once to a tuple display whose elements are literals or names of module-level functions
    (themselves defined once and never rebound): name -> Tuple AST."""
    counts = {}
    for n in ast.walk(tree):
        if isinstance(n, ast.Name) and isinstance(n.ctx, (ast.Store, ast.Del)):
            counts[n.id] = counts.get(n.id, 0) + 1
        if isinstance(n, (ast.Global, ast.Nonlocal)):
            for x in n.names:
                counts[x] = counts.get(x, 0) + 10
    fdefs = {}
    for n in ast.walk(tree):
        if isinstance(n, (ast.FunctionDef, ast.ClassDef)):
            fdefs[n.name] = fdefs.get(n.name, 0) + 1
    mod_fns = {n.name for n in tree.body if isinstance(n, ast.FunctionDef) and fdefs.get(n.name) == 1 and n.name not in counts}
    out = {}
    for st in tree.body:
        if isinstance(st, ast.Assign) and len(st.targets) == 1 and isinstance(st.targets[0], ast.Name) and counts.get(st.targets[0].id) == 1 and \
                isinstance(st.value, ast.Tuple) and st.value.elts and \
                all(isinstance(e, ast.Constant) or (isinstance(e, ast.Name) and e.id in mod_fns) for e in st.value.elts):
            out[st.targets[0].id] = st.value
    return out


def open_tuple_dispatch(tree, tables):
    """TABLE[bool(c)] / TABLE[int(c)] / TABLE[c] with c a comparison and TABLE a two-element constant tuple  ->  (TABLE[1] if c
    else TABLE[0]);  (f1 if c else f0)(args) -> f1(args) if c else f0(args)   (same evaluation order: c, then the arguments)."""
    k = [0]

    def cond_of(sl):
        if isinstance(sl, ast.Call) and isinstance(sl.func, ast.Name) and sl.func.id in ("bool", "int") and len(sl.args) == 1 and not sl.keywords:
            sl = sl.args[0]
            if isinstance(sl, ast.Call) and isinstance(sl.func, ast.Name) and sl.func.id == "bool" and len(sl.args) == 1:
                sl = sl.args[0]
        if isinstance(sl, ast.Compare) or (isinstance(sl, ast.UnaryOp) and isinstance(sl.op, ast.Not)) or isinstance(sl, ast.BoolOp):
            # (a BoolOp yields one of its operands, not a bool: only under bool()/int() - handled above - or when all operands
            # are comparisons)
            if isinstance(sl, ast.BoolOp) and not all(isinstance(v, ast.Compare) for v in sl.values):
                return None
            return sl
        return None

    for fn in [n for n in ast.walk(tree) if isinstance(n, ast.FunctionDef)]:
        shadow = local_names(fn)

        class T(ast.NodeTransformer):
            def visit_Subscript(self, n):
                self.generic_visit(n)
                tab = None
                if isinstance(n.value, ast.Name) and n.value.id in tables and n.value.id not in shadow:
                    tab = tables[n.value.id]
                elif isinstance(n.value, ast.Tuple) and all(isinstance(e, (ast.Constant, ast.Name)) for e in n.value.elts):
                    tab = n.value
                if tab is None or len(tab.elts) != 2 or not isinstance(n.ctx, ast.Load):
                    return n
                c = cond_of(n.slice)
                if c is None:
                    return n
                k[0] += 1
                return ast.copy_location(ast.IfExp(test=c, body=copy.deepcopy(tab.elts[1]), orelse=copy.deepcopy(tab.elts[0])), n)

            def visit_Call(self, n):
                self.generic_visit(n)
                if isinstance(n.func, ast.IfExp) and isinstance(n.func.body, ast.Name) and isinstance(n.func.orelse, ast.Name):
                    a = ast.Call(func=n.func.body, args=copy.deepcopy(n.args), keywords=copy.deepcopy(n.keywords))
                    b = ast.Call(func=n.func.orelse, args=n.args, keywords=n.keywords)
                    k[0] += 1
                    return ast.copy_location(ast.IfExp(test=n.func.test, body=a, orelse=b), n)
                return n
        T().visit(fn)
        ast.fix_missing_locations(fn)
    return k[0]


def unroll_literal_comprehensions(fn):
    """sum(E for v in (a, b, ..)) -> ((0 + E[a]) + E[b]) ..;  [E for v in (a, b)] -> [E[a], E[b]]   for a literal tuple / list of
    at most 8 simple elements (or a local bound exactly once to such a tuple), no filter: the iteration is written out."""
    k = [0]
    single = {}
    counts = {}
    for n in ast.walk(fn):
        if isinstance(n, ast.Name) and isinstance(n.ctx, (ast.Store, ast.Del)):
            counts[n.id] = counts.get(n.id, 0) + 1
    for n in ast.walk(fn):
        if isinstance(n, ast.Assign) and len(n.targets) == 1 and isinstance(n.targets[0], ast.Name) and counts.get(n.targets[0].id) == 1 and \
                isinstance(n.value, ast.Tuple) and all(simple_arg(e) for e in n.value.elts):
            # the elements' values must not change between the definition and the use: only parameters never rebound / subscripts of them
            rd = {x.id for e in n.value.elts for x in ast.walk(e) if isinstance(x, ast.Name)}
            if all(counts.get(r, 0) == 0 for r in rd):
                single[n.targets[0].id] = n.value

    def elements(it):
        if isinstance(it, (ast.Tuple, ast.List)) and len(it.elts) <= 8 and all(simple_arg(e) for e in it.elts):
            return it.elts
        if isinstance(it, ast.Name) and it.id in single and len(single[it.id].elts) <= 8:
            return single[it.id].elts
        return None

    def instances(comp):
        if len(comp.generators) != 1:
            return None
        g = comp.generators[0]
        if g.ifs or g.is_async or not isinstance(g.target, ast.Name):
            return None
        el = elements(g.iter)
        if el is None:
            return None
        if any(isinstance(x, (ast.Lambda, ast.GeneratorExp, ast.ListComp)) for x in ast.walk(comp.elt)):
            return None
        return [_Rename({}, {g.target.id: e}).visit(copy.deepcopy(comp.elt)) for e in el]

    class T(ast.NodeTransformer):
        def visit_Call(self, n):
            self.generic_visit(n)
            if isinstance(n.func, ast.Name) and n.func.id == "sum" and len(n.args) == 1 and not n.keywords and \
                    isinstance(n.args[0], (ast.GeneratorExp, ast.ListComp)):
                inst = instances(n.args[0])
                if inst is not None:
                    acc = ast.Constant(value=0)
                    for e in inst:
                        acc = ast.BinOp(left=acc, op=ast.Add(), right=e)
                    k[0] += 1
                    return ast.copy_location(acc, n)
            return n

        def visit_ListComp(self, n):
            self.generic_visit(n)
            inst = instances(n)
            if inst is not None:
                k[0] += 1
                return ast.copy_location(ast.List(elts=inst, ctx=ast.Load()), n)
            return n
    T().visit(fn)
    ast.fix_missing_locations(fn)
    return k[0]


def module_constants(tree):
    """Module-level names assigned exactly once, at module level, from an expression built from literals and np./math. calls:
    name -> value AST."""
    out = {}
    counts = {}
    for n in ast.walk(tree):
        if isinstance(n, ast.Name) and isinstance(n.ctx, (ast.Store, ast.Del)):
            counts[n.id] = counts.get(n.id, 0) + 1
        if isinstance(n, (ast.Global, ast.Nonlocal)):
            for x in n.names:
                counts[x] = counts.get(x, 0) + 10
    for s in tree.body:
        if isinstance(s, ast.Assign) and len(s.targets) == 1 and isinstance(s.targets[0], ast.Name) and counts.get(s.targets[0].id) == 1:
            v = s.value
            names = [x.id for x in ast.walk(v) if isinstance(x, ast.Name)]
            if pure_expr(v) and all(x in ("np", "numpy", "math") for x in names) and \
                    any(isinstance(x, (ast.Constant,)) and isinstance(x.value, (int, float)) for x in ast.walk(v)) and \
                    not any(isinstance(x, ast.Constant) and isinstance(x.value, str) for x in ast.walk(v)):
                out[s.targets[0].id] = v
    return out


def substitute_module_constants(tree, consts):
    k = 0
    if not consts:
        return 0
    for fn in [n for n in ast.walk(tree) if isinstance(n, ast.FunctionDef)]:
        shadow = local_names(fn)

        class Sub(ast.NodeTransformer):
            def visit_Name(self, n):
                nonlocal k
                if isinstance(n.ctx, ast.Load) and n.id in consts and n.id not in shadow:
                    k += 1
                    return ast.copy_location(copy.deepcopy(consts[n.id]), n)
                return n

            def visit_FunctionDef(self, n):
                if n is fn:
                    return self.generic_visit(n)
                return n
        Sub().visit(fn)
        ast.fix_missing_locations(fn)
    return k


REBOUND_SITES = [None]     # attr -> set of "Class.method" that rebind self.<attr>


def collect_rebound_sites(trees):
    out = {}
    for tree in trees:
        for c in ast.walk(tree):
            if not isinstance(c, ast.ClassDef):
                continue
            for f in c.body:
                if not isinstance(f, ast.FunctionDef):
                    continue
                for n in ast.walk(f):
                    if isinstance(n, ast.Attribute) and isinstance(n.ctx, (ast.Store, ast.Del)) and isinstance(n.value, ast.Name) and n.value.id == "self":
                        out.setdefault(n.attr, set()).add("%s.%s" % (c.name, f.name))
    return out


def _later_statements(fn, stmt):
    """Statements that can execute after `stmt` within one call of fn: the rest of every enclosing block, and the whole body
    of every enclosing loop."""
    par = {}
    for a in ast.walk(fn):
        for b in ast.iter_child_nodes(a):
            par[id(b)] = a
    out = []
    cur = stmt
    while cur is not fn and id(cur) in par:
        p = par[id(cur)]
        for field in ("body", "orelse", "finalbody"):
            blk = getattr(p, field, None)
            if isinstance(blk, list) and cur in blk:
                out.extend(blk[blk.index(cur) + 1:])
        if isinstance(p, (ast.For, ast.While)):
            out.extend(p.body)
            out.extend(p.orelse)
            if isinstance(p, ast.While):
                out.append(ast.Expr(value=p.test))
        cur = p
    return out


def _occurs(name, stmts):
    return any(isinstance(n, ast.Name) and n.id == name for t in stmts for n in ast.walk(t))


def coalesce_copies(fn):
    """`__t = x` where x is a local that is dead afterwards: the inliner's parameter copy is the same variable - rename __t to x."""
    k = 0
    again = True
    while again:
        again = False
        for b in _blocks(fn):
            for i, s in enumerate(b):
                if isinstance(s, ast.Assign) and len(s.targets) == 1 and isinstance(s.targets[0], ast.Name) and isinstance(s.value, ast.Name) and \
                        s.targets[0].id.startswith("__") and not s.value.id.startswith("__") and s.value.id != "self":
                    t, x = s.targets[0].id, s.value.id
                    later = [u for u in _later_statements(fn, s) if u is not s]
                    if _occurs(x, later):
                        continue
                    # t must not be live before the copy (its first definition is this copy)
                    first = None
                    for n in ast.walk(fn):
                        pass
                    defs_before = [n for blk in _blocks(fn) for u in blk for n in ast.walk(u) if isinstance(n, ast.Name) and n.id == t]
                    earlier = [u for blk in _blocks(fn) for u in blk]
                    # conservative: every occurrence of t lies in `s` or in the later statements
                    occ_all = sum(1 for n in ast.walk(fn) if isinstance(n, ast.Name) and n.id == t)
                    occ_later = sum(1 for u in later for n in ast.walk(u) if isinstance(n, ast.Name) and n.id == t)
                    # (later may list nested statements twice: compare as sets of node ids)
                    ids_all = {id(n) for n in ast.walk(fn) if isinstance(n, ast.Name) and n.id == t}
                    ids_later = {id(n) for u in later for n in ast.walk(u) if isinstance(n, ast.Name) and n.id == t} | {id(s.targets[0])}
                    if ids_all != ids_later:
                        continue
                    for n in ast.walk(fn):
                        if isinstance(n, ast.Name) and n.id == t:
                            n.id = x
                    del b[i]
                    k += 1
                    again = True
                    break
            if again:
                break
    return k


def fold_none_tests(fn, cname):
    """`if self.a is not None:` where self.a was bound to a list/dict/tuple display earlier in this function on every path
    (an earlier statement of an enclosing block) and no other method except constructors rebinds it: the test is constant."""
    sites = REBOUND_SITES[0]
    if sites is None or cname is None:
        return 0
    k = 0
    me = "%s.%s" % (cname, fn.name)
    par = {}
    for a in ast.walk(fn):
        for b in ast.iter_child_nodes(a):
            par[id(b)] = a

    def non_none_before(stmt, attr):
        """an assignment self.attr = <display> among the earlier siblings of stmt or of its ancestors, with no other
        assignment of self.attr anywhere in fn that is not such a display"""
        for n in ast.walk(fn):
            if isinstance(n, ast.Attribute) and isinstance(n.ctx, (ast.Store, ast.Del)) and isinstance(n.value, ast.Name) and n.value.id == "self" \
                    and n.attr == attr:
                a = par.get(id(n))
                if not (isinstance(a, ast.Assign) and len(a.targets) == 1 and isinstance(a.value, (ast.List, ast.Dict, ast.Tuple, ast.ListComp))):
                    return False
        cur = stmt
        while cur is not fn and id(cur) in par:
            p = par[id(cur)]
            for field in ("body", "orelse"):
                blk = getattr(p, field, None)
                if isinstance(blk, list) and cur in blk:
                    for u in blk[:blk.index(cur)]:
                        if isinstance(u, ast.Assign) and len(u.targets) == 1 and isinstance(u.targets[0], ast.Attribute) and \
                                isinstance(u.targets[0].value, ast.Name) and u.targets[0].value.id == "self" and u.targets[0].attr == attr:
                            return True
            cur = p
        return False
    for b in _blocks(fn):
        i = 0
        while i < len(b):
            s = b[i]
            if isinstance(s, ast.If) and isinstance(s.test, ast.Compare) and len(s.test.ops) == 1 and isinstance(s.test.ops[0], (ast.Is, ast.IsNot)) and \
                    isinstance(s.test.comparators[0], ast.Constant) and s.test.comparators[0].value is None:
                subj = s.test.left
                val = None
                if isinstance(subj, ast.Constant) and subj.value is None:
                    val = isinstance(s.test.ops[0], ast.Is)
                elif isinstance(subj, ast.Attribute) and isinstance(subj.value, ast.Name) and subj.value.id == "self":
                    where = sites.get(subj.attr, set())
                    if where <= {me, "%s.__init__" % cname} and non_none_before(s, subj.attr):
                        val = isinstance(s.test.ops[0], ast.IsNot)
                if val is not None:
                    repl = s.body if val else s.orelse
                    b[i:i + 1] = repl
                    k += 1
                    continue
            i += 1
    return k


class _DropBool(ast.NodeTransformer):
    def visit_Call(self, n):
        self.generic_visit(n)
        if isinstance(n.func, ast.Name) and n.func.id == "bool" and len(n.args) == 1 and not n.keywords and \
                isinstance(n.args[0], (ast.Compare, ast.BoolOp, ast.UnaryOp)):
            return n.args[0]
        return n


def normalize_tree(file, tree, vocab):
    """Normalise one module in place; returns a log of what was done."""
    log = []
    # conditional expressions at statement level are opened first, so that helper calls inside them become ordinary statements
    pre = 0
    td = open_tuple_dispatch(tree, dispatch_tables(tree))
    if td:
        log.append("%d two-way table look-up(s) / dispatched call(s) written as conditional expressions" % td)
    for f0 in [n for n in ast.walk(tree) if isinstance(n, ast.FunctionDef)]:
        pre += expand_return_ifexp(f0)
    if pre:
        log.append("%d conditional expression(s) at statement level opened into if/else" % pre)
    # consistent renamings of locals of baseline methods are undone first
    v0 = vocab.get(file, {})
    lr = 0
    for node in tree.body:
        if isinstance(node, ast.ClassDef):
            for f0 in node.body:
                if isinstance(f0, ast.FunctionDef):
                    bn = (v0.get("classes", {}).get(node.name) or {}).get(f0.name)
                    bs = (v0.get("local_sigs", {}).get(node.name) or {}).get(f0.name)
                    if bn is not None and bs:
                        lr += undo_local_renames(f0, set(bn), bs)
        elif isinstance(node, ast.FunctionDef):
            bn = v0.get("functions", {}).get(node.name)
            bs = (v0.get("local_sigs", {}).get("") or {}).get(node.name)
            if bn is not None and bs:
                lr += undo_local_renames(node, set(bn), bs)
    if lr:
        log.append("%d renamed local(s) given their baseline names back" % lr)
    inliner = Inliner(file, tree, vocab)
    inl = inliner.run()
    if inl:
        log.append("inlined new helpers: %s" % sorted(set(inl)))
        # a new helper with no remaining call is dead code after inlining: drop its definition
        names = {x.split(" -> ")[0] for x in inl}
        called = set()
        for n in ast.walk(tree):
            if isinstance(n, ast.Call):
                f = n.func
                if isinstance(f, ast.Attribute):
                    called.add(f.attr)
                elif isinstance(f, ast.Name):
                    called.add(f.id)
            elif isinstance(n, ast.Attribute) and isinstance(n.ctx, ast.Load):
                called.add(n.attr)       # bound-method references such as key=self._helper
        for node in [tree] + [c for c in tree.body if isinstance(c, ast.ClassDef)]:
            node.body = [f for f in node.body if not (isinstance(f, ast.FunctionDef) and f.name in names and f.name not in called)]
    v = vocab.get(file, {"classes": {}, "functions": {}})
    mc = substitute_module_constants(tree, module_constants(tree))
    if mc:
        log.append("%d use(s) of module-level numeric constants replaced by their definitions" % mc)
    rectypes = record_types(tree)
    for node in tree.body:
        fns = []
        if isinstance(node, ast.ClassDef):
            for f in node.body:
                if isinstance(f, ast.FunctionDef):
                    fns.append((node.name, f, set(v["classes"].get(node.name, {}).get(f.name, []) or [])
                                if f.name in v["classes"].get(node.name, {}) else None))
        elif isinstance(node, ast.FunctionDef):
            fns.append((None, node, set(v["functions"].get(node.name, [])) if node.name in v["functions"] else None))
        for cname, f, known in fns:
            STABLE[0] = stable_attrs(node if isinstance(node, ast.ClassDef) else None, f)
            CONTAINER_WRITES[0] = container_writes(node) if isinstance(node, ast.ClassDef) else {}
            t0 = scalarise_records(f, rectypes)
            t0 += split_chained_assigns(f)
            t0 += canonical_layer_getter(f)
            t0 += unroll_literal_comprehensions(f)
            t0 += split_tuple_assigns(f)
            t0 += open_generator_iters(f)
            t0 += dict_calls_to_displays(f) + islice_to_slices(f) + split_fold_accumulators(f)
            t0 += expand_return_ifexp(f) + unroll_literal_loops(f) + expand_dict_splats(f) + open_inline_splats(f)
            t0 += rematerialise_loop_tests(f)
            t0 += specialise_tail_on_test(f)
            t0 += merge_repeated_tests(f)
            t0 += fold_none_tests(f, cname)
            t0 += seed_list_literals(f)
            t0 += argsort_to_sorted(f)
            t0 += merge_same_branches(f)
            t0 += unzip_mapped(f)
            t0 += search_to_loop(f)
            t0 += inline_filtered_lists(f)
            t0 += fuse_search_loops(f)
            t0 += last_element_reads(f)
            t0 += scalarise_tuple_temps(f)
            t0 += coalesce_copies(f)
            t0 += rename_result_temps(f)
            t0 += rename_multi_def_temps(f)
            t0 += sink_result_copies(f)
            t0 += drop_tail_return_none(f)
            t0 += eliminate_result_copies(f)
            t0 += forward_copy_temps(f)
            t0 += coalesce_inout(f)
            t0 += flag_loops_to_else(f)
            t0 += thread_bool_flags(f)
            if t0:
                log.append("%s.%s: %d parallel assignment(s) split / result temporaries renamed" % (cname, f.name, t0))
            w4 = count_loops(f) + while_true_breaks(f) + counter_whiles(f)
            if w4:
                log.append("%s.%s: %d loop(s) brought to while-cond / for-range form" % (cname, f.name, w4))
            g = guard_clauses(f)
            if g:
                log.append("%s.%s: %d guard clause(s) -> if/else" % (cname, f.name, g))
            rn = renest_flat_loops(f)
            if rn:
                log.append("%s.%s: %d flattened loop nest(s) re-nested" % (cname, f.name, rn))
            if known is not None:
                fu = forward_unpack_targets(f, known | set(a.arg for a in f.args.args))
                if fu:
                    log.append("%s.%s: %d unpacked value(s) stored directly" % (cname, f.name, fu))
                rs = rematerialise_same_rhs(f, known | set(a.arg for a in f.args.args))
                if rs:
                    log.append("%s.%s: %d new local(s) with one repeated definition read as that expression" % (cname, f.name, rs))
                da = demote_attr_accumulators(f, known)
                if da:
                    log.append("%s.%s: %d local accumulator(s) copied into an attribute at the end read as that attribute" % (cname, f.name, da))
                sw = split_webs(f, known | set(a.arg for a in f.args.args))
                if sw:
                    log.append("%s.%s: %d new local(s) split into independent variables" % (cname, f.name, sw))
                k = substitute_new_temps(f, known | set(a.arg for a in f.args.args))
                if k:
                    log.append("%s.%s: %d new temporar%s substituted" % (cname, f.name, k, "y" if k == 1 else "ies"))
            w5 = while_true_breaks(f) + counter_whiles(f)      # loop forms again: a temporary may have stood in front of the exit test
            if w5:
                log.append("%s.%s: %d more loop(s) brought to while-cond / for-range form" % (cname, f.name, w5))
            cs = cse_const_aliases(f)
            if cs:
                log.append("%s.%s: %d spelling(s) of a constant designator replaced by its local alias" % (cname, f.name, cs))
            _DropBool().visit(f)
            for blk in _blocks(f):
                if len(blk) > 1 and any(isinstance(x, ast.Pass) for x in blk):
                    blk[:] = [x for x in blk if not isinstance(x, ast.Pass)] or [blk[0]]
            ast.fix_missing_locations(f)
    return log
