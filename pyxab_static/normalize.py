"""Source normalisation applied before the rules look at the code.

Purpose: the rules compare code shapes; behaviour-preserving maintenance edits (a helper extracted, a
temporary introduced, guard clauses with `continue` instead of if/else) must not change the shape they see.
The normaliser maps such variants back towards the vocabulary of the tree the rules were written for:

  N1  calls of helpers that are NOT in the baseline vocabulary (methods/functions that did not exist when the
      rules were written) are inlined at statement level (or at expression level when the helper is a single
      `return expr`), parameters substituted, helper locals renamed;
  N2  guard clauses inside loops - `if c: A; continue` followed by R - become `if c: A else: R`;
  N3  locals that are NOT in the function's baseline vocabulary, assigned exactly once from a side-effect-free
      expression whose inputs are not modified between the definition and the uses, are substituted into
      their uses; `bool(x)` wrappers around conditions are dropped.

All three are semantics-preserving rewrites of the analysed copy of the AST; /repo is never modified.  The
baseline vocabulary (`baseline_vocab.json`: class -> method names, function -> local names) only decides what
counts as "new"; it is not a reference the code is compared against.
"""
import ast
import copy
import json
import pathlib

VOCAB_FILE = pathlib.Path(__file__).resolve().parent / "baseline_vocab.json"
PURE_CALL_NAMES = {"len", "range", "abs", "min", "max", "float", "int", "bool", "list", "tuple", "enumerate", "zip", "sorted", "sum"}
PURE_NS = ("np.", "numpy.", "math.")
IMPURE_NP = ("np.random.", "numpy.random.")


def load_vocab():
    if VOCAB_FILE.exists():
        return json.loads(VOCAB_FILE.read_text())
    return {}


def build_vocab(trees):
    out = {}
    for file, tree in trees.items():
        ent = {"classes": {}, "functions": {}}
        for n in tree.body:
            if isinstance(n, ast.ClassDef):
                ent["classes"][n.name] = {f.name: sorted(local_names(f)) for f in n.body if isinstance(f, ast.FunctionDef)}
            elif isinstance(n, ast.FunctionDef):
                ent["functions"][n.name] = sorted(local_names(n))
        out[file] = ent
    return out


def local_names(fn):
    out = set(a.arg for a in fn.args.args + fn.args.kwonlyargs)
    for n in ast.walk(fn):
        if isinstance(n, ast.Name) and isinstance(n.ctx, ast.Store):
            out.add(n.id)
        elif isinstance(n, ast.FunctionDef) and n is not fn:
            out.add(n.name)
    return out


def src(e):
    return " ".join(ast.unparse(e).split())


# ---------------------------------------------------------------------------
# N1 helper inlining


class _Rename(ast.NodeTransformer):
    def __init__(self, mapping, exprs):
        self.mapping = mapping      # local name -> new local name
        self.exprs = exprs          # parameter name -> replacement expression AST

    def visit_Name(self, n):
        if n.id in self.exprs and isinstance(n.ctx, ast.Load):
            return copy.deepcopy(self.exprs[n.id])
        if n.id in self.mapping:
            return ast.copy_location(ast.Name(id=self.mapping[n.id], ctx=n.ctx), n)
        return n


def simple_arg(e):
    """Expressions that may be substituted textually for a parameter (no side effects, cheap)."""
    if isinstance(e, (ast.Constant, ast.Name)):
        return True
    if isinstance(e, ast.Attribute):
        return simple_arg(e.value)
    if isinstance(e, ast.Subscript):
        return simple_arg(e.value) and simple_arg(e.slice)
    if isinstance(e, ast.Call) and isinstance(e.func, ast.Attribute) and e.func.attr.startswith("get_") and not e.args and not e.keywords:
        return simple_arg(e.func.value)
    if isinstance(e, ast.UnaryOp):
        return simple_arg(e.operand)
    if isinstance(e, ast.BinOp):
        return simple_arg(e.left) and simple_arg(e.right)
    return False


def helper_shape(fn):
    """(body statements without docstring and without trailing return, return expr or None) if inlinable."""
    body = list(fn.body)
    if body and isinstance(body[0], ast.Expr) and isinstance(body[0].value, ast.Constant) and isinstance(body[0].value.value, str):
        body = body[1:]
    if fn.args.vararg or fn.args.kwarg or fn.args.kwonlyargs:
        return None
    ret = None
    if body and isinstance(body[-1], ast.Return):
        ret = body[-1].value
        body = body[:-1]
    for s in body:
        for n in ast.walk(s):
            if isinstance(n, (ast.Return, ast.Yield, ast.YieldFrom, ast.FunctionDef, ast.Lambda, ast.Global, ast.Nonlocal)):
                return None
    return body, ret


class Inliner:
    def __init__(self, file, tree, vocab):
        self.file = file
        self.tree = tree
        v = vocab.get(file, {"classes": {}, "functions": {}})
        self.known_functions = set(v["functions"])
        self.known_methods = {c: set(m) for c, m in v["classes"].items()}
        self.module_helpers = {n.name: n for n in tree.body if isinstance(n, ast.FunctionDef) and n.name not in self.known_functions}
        self.counter = 0
        self.inlined = []

    def helpers_of(self, cls):
        known = self.known_methods.get(cls.name)
        if known is None:
            return {}
        out = {}
        for f in cls.body:
            if isinstance(f, ast.FunctionDef) and f.name not in known and not f.name.startswith("__"):
                out[f.name] = f
        return out

    def run(self):
        for node in self.tree.body:
            if isinstance(node, ast.ClassDef):
                helpers = self.helpers_of(node)
                for _ in range(3):
                    changed = False
                    for f in node.body:
                        if isinstance(f, ast.FunctionDef):
                            changed |= self.inline_in(f, node, helpers)
                    if not changed:
                        break
            elif isinstance(node, ast.FunctionDef):
                for _ in range(3):
                    if not self.inline_in(node, None, {}):
                        break
        return self.inlined

    def match_call(self, call, cls, helpers):
        """Return (helper FunctionDef, is_method) if `call` calls an inlinable new helper."""
        f = call.func
        if isinstance(f, ast.Attribute) and isinstance(f.value, ast.Name) and cls is not None:
            if f.value.id in ("self", cls.name) and f.attr in helpers:
                return helpers[f.attr], True
        if isinstance(f, ast.Name) and f.id in self.module_helpers:
            return self.module_helpers[f.id], False
        return None, False

    def bind(self, helper, is_method, call):
        params = [a.arg for a in helper.args.args]
        static = any(isinstance(d, ast.Name) and d.id == "staticmethod" for d in helper.decorator_list)
        if is_method and not static:
            params = params[1:]
        defaults = helper.args.defaults
        vals = {}
        for p, a in zip(params, call.args):
            vals[p] = a
        for k in call.keywords:
            if k.arg is None or k.arg not in params:
                return None
            vals[k.arg] = k.value
        for p, d in zip(params[len(params) - len(defaults):], defaults):
            vals.setdefault(p, d)
        if set(vals) != set(params) or any(isinstance(a, ast.Starred) for a in call.args):
            return None
        return params, vals

    def instantiate(self, helper, is_method, call):
        shape = helper_shape(helper)
        if shape is None:
            return None
        b = self.bind(helper, is_method, call)
        if b is None:
            return None
        params, vals = b
        body, ret = shape
        self.counter += 1
        tag = "__%s%d_" % (helper.name.strip("_"), self.counter)
        assigned = set()
        for s in body:
            for n in ast.walk(s):
                if isinstance(n, ast.Name) and isinstance(n.ctx, ast.Store):
                    assigned.add(n.id)
        exprs, pre, mapping = {}, [], {}
        for p in params:
            if p not in assigned and simple_arg(vals[p]):
                exprs[p] = vals[p]
            else:
                mapping[p] = tag + p
                pre.append(ast.Assign(targets=[ast.Name(id=tag + p, ctx=ast.Store())], value=copy.deepcopy(vals[p])))
        for n in assigned:
            if n not in mapping:
                mapping[n] = tag + n
        rn = _Rename(mapping, exprs)
        new_body = [rn.visit(copy.deepcopy(s)) for s in body]
        new_ret = rn.visit(copy.deepcopy(ret)) if ret is not None else None
        for s in pre + new_body:
            ast.copy_location(s, call)
            ast.fix_missing_locations(s)
        return pre + new_body, new_ret

    def inline_in(self, fn, cls, helpers):
        changed = [False]
        me = self

        def in_block(stmts):
            out = []
            for s in stmts:
                # recurse into compound statements first
                for field in ("body", "orelse", "finalbody"):
                    b = getattr(s, field, None)
                    if isinstance(b, list) and b and isinstance(b[0], ast.stmt):
                        setattr(s, field, in_block(b))
                call = None
                kind = None
                if isinstance(s, ast.Expr) and isinstance(s.value, ast.Call):
                    call, kind = s.value, "expr"
                elif isinstance(s, (ast.Assign, ast.AugAssign, ast.AnnAssign)) and isinstance(s.value, ast.Call):
                    call, kind = s.value, "assign"
                elif isinstance(s, ast.Return) and isinstance(s.value, ast.Call):
                    call, kind = s.value, "return"
                if call is not None:
                    h, is_m = me.match_call(call, cls, helpers)
                    if h is not None and h is not fn:
                        inst = me.instantiate(h, is_m, call)
                        if inst is not None:
                            body, ret = inst
                            out.extend(body)
                            if kind == "expr":
                                pass
                            else:
                                s.value = ret if ret is not None else ast.Constant(value=None)
                                ast.fix_missing_locations(s)
                                out.append(s)
                            changed[0] = True
                            me.inlined.append("%s -> %s" % (h.name, fn.name))
                            continue
                # expression-level inlining of single-return helpers
                s2 = me.inline_exprs(s, fn, cls, helpers, changed)
                out.append(s2)
            return out
        fn.body = in_block(fn.body)
        return changed[0]

    def inline_exprs(self, stmt, fn, cls, helpers, changed):
        me = self

        class T(ast.NodeTransformer):
            def visit_Call(self, n):
                self.generic_visit(n)
                h, is_m = me.match_call(n, cls, helpers)
                if h is None or h is fn:
                    return n
                shape = helper_shape(h)
                if shape is None or shape[0] or shape[1] is None:
                    return n
                b = me.bind(h, is_m, n)
                if b is None:
                    return n
                params, vals = b
                if not all(simple_arg(vals[p]) for p in params):
                    # only substitute when every argument is cheap and pure, otherwise keep the call
                    uses = {p: sum(1 for x in ast.walk(shape[1]) if isinstance(x, ast.Name) and x.id == p) for p in params}
                    if any(uses[p] > 1 and not simple_arg(vals[p]) for p in params):
                        return n
                new = _Rename({}, {p: vals[p] for p in params}).visit(copy.deepcopy(shape[1]))
                changed[0] = True
                me.inlined.append("%s -> %s (expr)" % (h.name, fn.name))
                return ast.copy_location(new, n)

            def visit_FunctionDef(self, n):
                return n
        # only the statement's own expressions (nested blocks were handled by the caller)
        for field, val in ast.iter_fields(stmt):
            if field in ("body", "orelse", "finalbody", "handlers"):
                continue
            if isinstance(val, ast.AST):
                setattr(stmt, field, T().visit(val))
            elif isinstance(val, list):
                setattr(stmt, field, [T().visit(v) if isinstance(v, ast.AST) else v for v in val])
        ast.fix_missing_locations(stmt)
        return stmt


# ---------------------------------------------------------------------------
# N2 guard clauses


def negate(test):
    if isinstance(test, ast.UnaryOp) and isinstance(test.op, ast.Not):
        return test.operand
    if isinstance(test, ast.Compare) and len(test.ops) == 1:
        neg = {ast.Is: ast.IsNot, ast.IsNot: ast.Is, ast.Eq: ast.NotEq, ast.NotEq: ast.Eq, ast.Lt: ast.GtE, ast.GtE: ast.Lt,
               ast.Gt: ast.LtE, ast.LtE: ast.Gt, ast.In: ast.NotIn, ast.NotIn: ast.In}
        op = neg.get(type(test.ops[0]))
        if op is not None and type(test.ops[0]) in (ast.Is, ast.IsNot, ast.In, ast.NotIn):
            return ast.copy_location(ast.Compare(left=test.left, ops=[op()], comparators=test.comparators), test)
    return ast.copy_location(ast.UnaryOp(op=ast.Not(), operand=test), test)


def guard_clauses(fn):
    n_changed = [0]

    def fix_loop_body(stmts):
        out = []
        for i, s in enumerate(stmts):
            fix_children(s)
            if isinstance(s, ast.If) and not s.orelse and s.body and isinstance(s.body[-1], ast.Continue) and i + 1 < len(stmts):
                rest = fix_loop_body(stmts[i + 1:])
                head = s.body[:-1]
                if any(isinstance(x, (ast.Break, ast.Continue)) for h in head for x in ast.walk(h)):
                    out.append(s)
                    continue
                n_changed[0] += 1
                if head:
                    new = ast.If(test=s.test, body=head, orelse=rest)
                else:
                    new = ast.If(test=negate(s.test), body=rest, orelse=[])
                ast.copy_location(new, s)
                ast.fix_missing_locations(new)
                out.append(new)
                return out
            out.append(s)
        return out

    def fix_children(s):
        if isinstance(s, (ast.For, ast.While)):
            s.body = fix_loop_body(s.body)
            for x in s.orelse:
                fix_children(x)
        else:
            for field in ("body", "orelse"):
                b = getattr(s, field, None)
                if isinstance(b, list) and b and isinstance(b[0], ast.stmt):
                    for x in b:
                        fix_children(x)
    for s in fn.body:
        fix_children(s)
    return n_changed[0]


# ---------------------------------------------------------------------------
# N3 new temporaries


def pure_expr(e):
    for n in ast.walk(e):
        if isinstance(n, ast.Call):
            name = src(n.func)
            if name.startswith(IMPURE_NP):
                return False
            if name.startswith(PURE_NS):
                continue
            if isinstance(n.func, ast.Name) and n.func.id in PURE_CALL_NAMES:
                continue
            if isinstance(n.func, ast.Attribute) and n.func.attr.startswith("get_"):
                continue
            if isinstance(n.func, ast.Attribute) and n.func.attr in ("not_opened",):
                continue
            return False
        if isinstance(n, (ast.ListComp, ast.GeneratorExp, ast.Lambda, ast.Yield, ast.Await, ast.NamedExpr, ast.List, ast.Dict, ast.Set)):
            return False
    return True


def reads(e):
    out = set()
    for n in ast.walk(e):
        if isinstance(n, ast.Name):
            out.add(n.id)
        elif isinstance(n, ast.Attribute):
            try:
                out.add(src(n))
            except Exception:
                pass
        elif isinstance(n, ast.Call):
            # the result of a getter depends on the object's state: represent by a pseudo-location
            out.add("<state>")
    return out


def writes_of(stmt):
    """Names / attribute chains a statement may modify (conservative); '<state>' for any call that is not pure."""
    out = set()
    for n in ast.walk(stmt):
        if isinstance(n, ast.Name) and isinstance(n.ctx, ast.Store):
            out.add(n.id)
        elif isinstance(n, ast.Attribute) and isinstance(n.ctx, ast.Store):
            out.add(src(n))
            out.add("<state>")
        elif isinstance(n, ast.Subscript) and isinstance(n.ctx, ast.Store):
            out.add("<state>")
            b = n.value
            while isinstance(b, (ast.Subscript,)):
                b = b.value
            try:
                out.add(src(b))
            except Exception:
                pass
        elif isinstance(n, ast.Call):
            name = src(n.func)
            if name.startswith(PURE_NS) and not name.startswith(IMPURE_NP):
                continue
            if isinstance(n.func, ast.Name) and n.func.id in PURE_CALL_NAMES:
                continue
            if isinstance(n.func, ast.Attribute) and (n.func.attr.startswith("get_") or n.func.attr in ("not_opened",)):
                continue
            out.add("<state>")
            if isinstance(n.func, ast.Attribute):
                b = n.func.value
                while isinstance(b, ast.Subscript):
                    b = b.value
                try:
                    out.add(src(b))
                except Exception:
                    pass
    return out


def substitute_new_temps(fn, known_locals):
    """Forward-substitute single-assignment new locals within one statement list (straight-line region)."""
    n_sub = [0]

    def process(stmts):
        i = 0
        while i < len(stmts):
            s = stmts[i]
            for field in ("body", "orelse"):
                b = getattr(s, field, None)
                if isinstance(b, list) and b and isinstance(b[0], ast.stmt):
                    process(b)
            if isinstance(s, ast.Assign) and len(s.targets) == 1 and isinstance(s.targets[0], ast.Name) \
                    and s.targets[0].id not in known_locals and not s.targets[0].id.startswith("__") and pure_expr(s.value):
                name = s.targets[0].id
                # single definition in the whole function, no augmented assignment
                defs = [n for n in ast.walk(fn) if isinstance(n, ast.Name) and n.id == name and isinstance(n.ctx, (ast.Store, ast.Del))]
                if len(defs) == 1:
                    # every use must be in the statements after s in this list (incl. nested), before any write to the inputs
                    deps = reads(s.value)
                    uses_elsewhere = [n for n in ast.walk(fn) if isinstance(n, ast.Name) and n.id == name and isinstance(n.ctx, ast.Load)]
                    later = stmts[i + 1:]
                    inside = [n for t in later for n in ast.walk(t) if isinstance(n, ast.Name) and n.id == name and isinstance(n.ctx, ast.Load)]
                    if uses_elsewhere and len(inside) == len(uses_elsewhere):
                        ok = True
                        last_use_idx = max(k for k, t in enumerate(later) if any(isinstance(n, ast.Name) and n.id == name for n in ast.walk(t)))
                        for t in later[:last_use_idx + 1]:
                            w = writes_of(t)
                            uses_here = any(isinstance(n, ast.Name) and n.id == name for n in ast.walk(t))
                            if w & deps:
                                # a write to an input: allowed only in the last using statement when that statement is simple
                                # and every use is evaluated before the write takes effect: the right-hand side of an
                                # assignment, or the arguments of the statement's single state-changing call
                                if t is later[last_use_idx] and isinstance(t, (ast.Assign, ast.AugAssign, ast.Return, ast.Expr)):
                                    impure = [x for x in ast.walk(t) if isinstance(x, ast.Call) and "<state>" in writes_of(ast.Expr(value=x))]
                                    if not impure:
                                        continue
                                    if len(impure) == 1:
                                        inside_args = set()
                                        for a in list(impure[0].args) + [k.value for k in impure[0].keywords]:
                                            for x in ast.walk(a):
                                                inside_args.add(id(x))
                                        uses_t = [x for x in ast.walk(t) if isinstance(x, ast.Name) and x.id == name]
                                        if uses_t and all(id(x) in inside_args for x in uses_t):
                                            continue
                                ok = False
                                break
                            # loops re-evaluate: substituting into a loop body changes how often it is evaluated (pure: fine)
                        if ok:
                            val = s.value

                            class Sub(ast.NodeTransformer):
                                def visit_Name(self, n):
                                    if n.id == name and isinstance(n.ctx, ast.Load):
                                        return ast.copy_location(copy.deepcopy(val), n)
                                    return n
                            for k, t in enumerate(later):
                                later[k] = Sub().visit(t)
                                ast.fix_missing_locations(later[k])
                            stmts[i + 1:] = later
                            del stmts[i]
                            n_sub[0] += 1
                            continue
            i += 1
    process(fn.body)
    return n_sub[0]


class _DropBool(ast.NodeTransformer):
    def visit_Call(self, n):
        self.generic_visit(n)
        if isinstance(n.func, ast.Name) and n.func.id == "bool" and len(n.args) == 1 and not n.keywords and \
                isinstance(n.args[0], (ast.Compare, ast.BoolOp, ast.UnaryOp)):
            return n.args[0]
        return n


def normalize_tree(file, tree, vocab):
    """Normalise one module in place; returns a log of what was done."""
    log = []
    inliner = Inliner(file, tree, vocab)
    inl = inliner.run()
    if inl:
        log.append("inlined new helpers: %s" % sorted(set(inl)))
        # a new helper with no remaining call is dead code after inlining: drop its definition
        names = {x.split(" -> ")[0] for x in inl}
        called = set()
        for n in ast.walk(tree):
            if isinstance(n, ast.Call):
                f = n.func
                if isinstance(f, ast.Attribute):
                    called.add(f.attr)
                elif isinstance(f, ast.Name):
                    called.add(f.id)
            elif isinstance(n, ast.Attribute) and isinstance(n.ctx, ast.Load):
                called.add(n.attr)       # bound-method references such as key=self._helper
        for node in [tree] + [c for c in tree.body if isinstance(c, ast.ClassDef)]:
            node.body = [f for f in node.body if not (isinstance(f, ast.FunctionDef) and f.name in names and f.name not in called)]
    v = vocab.get(file, {"classes": {}, "functions": {}})
    for node in tree.body:
        fns = []
        if isinstance(node, ast.ClassDef):
            for f in node.body:
                if isinstance(f, ast.FunctionDef):
                    fns.append((node.name, f, set(v["classes"].get(node.name, {}).get(f.name, []) or [])
                                if f.name in v["classes"].get(node.name, {}) else None))
        elif isinstance(node, ast.FunctionDef):
            fns.append((None, node, set(v["functions"].get(node.name, [])) if node.name in v["functions"] else None))
        for cname, f, known in fns:
            g = guard_clauses(f)
            if g:
                log.append("%s.%s: %d guard clause(s) -> if/else" % (cname, f.name, g))
            if known is not None:
                k = substitute_new_temps(f, known | set(a.arg for a in f.args.args))
                if k:
                    log.append("%s.%s: %d new temporar%s substituted" % (cname, f.name, k, "y" if k == 1 else "ies"))
            _DropBool().visit(f)
            ast.fix_missing_locations(f)
    return log
