"""Source normalisation applied before the rules look at the code.

Purpose: the rules compare code shapes; behaviour-preserving maintenance edits (a helper extracted, a
temporary introduced, guard clauses with `continue` instead of if/else) must not change the shape they see.
The normaliser maps such variants back towards the vocabulary of the tree the rules were written for:

  N1  calls of helpers that are NOT in the baseline vocabulary (methods/functions that did not exist when the
      rules were written) are inlined at statement level (or at expression level when the helper is a single
      `return expr`), parameters substituted, helper locals renamed;
  N2  guard clauses inside loops - `if c: A; continue` followed by R - become `if c: A else: R`;
  N3  locals that are NOT in the function's baseline vocabulary, assigned exactly once from a side-effect-free
      expression whose inputs are not modified between the definition and the uses, are substituted into
      their uses; `bool(x)` wrappers around conditions are dropped.

  N0  parallel assignments `a, b = x, y` whose right-hand sides do not read the earlier targets are split into single ones;
  N4  `while True:` loops that start with `if c: break` become `while not c:`;
  N5  counter loops `i = a; while i < b: ...; i += 1` (bound not modified by the body, `i` not read after the loop,
      no `continue`) become `for i in range(a, b)`;
  helper inlining (N1) also handles helpers with guard-clause returns outside loops (return elimination) and renames an
  inlined result temporary to the variable it is copied to.

All of these are semantics-preserving rewrites of the analysed copy of the AST; /repo is never modified.  The
baseline vocabulary (`baseline_vocab.json`: class -> method names, function -> local names) only decides what
counts as "new"; it is not a reference the code is compared against.
"""
import ast
import copy
import json
import pathlib

VOCAB_FILE = pathlib.Path(__file__).resolve().parent / "baseline_vocab.json"
PURE_CALL_NAMES = {"len", "range", "abs", "min", "max", "float", "int", "bool", "list", "tuple", "enumerate", "zip", "sorted", "sum"}
PURE_NS = ("np.", "numpy.", "math.")
IMPURE_NP = ("np.random.", "numpy.random.")


def load_vocab():
    if VOCAB_FILE.exists():
        return json.loads(VOCAB_FILE.read_text())
    return {}


def class_attrs(cls_node):
    """[(attribute, source of the first value assigned to it or None)] in order of first store (constructor first)."""
    out, seen = [], set()
    fns = [f for f in cls_node.body if isinstance(f, ast.FunctionDef)]
    fns.sort(key=lambda f: (f.name != "__init__",))
    for f in fns:
        for n in ast.walk(f):
            tg = []
            if isinstance(n, ast.Assign):
                tg = [(t, n.value) for t in n.targets]
            elif isinstance(n, (ast.AugAssign, ast.AnnAssign)):
                tg = [(n.target, getattr(n, "value", None))]
            for t, v in tg:
                for x in ([t] if not isinstance(t, (ast.Tuple, ast.List)) else t.elts):
                    if isinstance(x, ast.Attribute) and isinstance(x.value, ast.Name) and x.value.id == "self" and x.attr not in seen:
                        seen.add(x.attr)
                        out.append([x.attr, src(v) if (v is not None and x is t) else None])
    return out


def build_vocab(trees):
    out = {}
    for file, tree in trees.items():
        ent = {"classes": {}, "functions": {}, "attrs": {}, "params": {}}
        for n in tree.body:
            if isinstance(n, ast.ClassDef):
                ent["attrs"][n.name] = class_attrs(n)
                ent["params"][n.name] = {f.name: [a.arg for a in f.args.args] for f in n.body if isinstance(f, ast.FunctionDef)}
            if isinstance(n, ast.ClassDef):
                ent["classes"][n.name] = {f.name: sorted(local_names(f)) for f in n.body if isinstance(f, ast.FunctionDef)}
            elif isinstance(n, ast.FunctionDef):
                ent["functions"][n.name] = sorted(local_names(n))
        out[file] = ent
    return out


def undo_renames(trees, vocab):
    """Consistent renamings relative to the baseline vocabulary are undone on the analysed copy:
    * a class lost attribute `a` and gained attribute `b` (matched by the value first assigned to it, else by position when as
      many were lost as gained): every `.b` in that file becomes `.a`;
    * a class lost method `m` and gained method `m2` with the same parameter list, and `m2` is the only such candidate: the
      definition and every call `.m2(..)` in the analysed packages become `m`.
    Alpha-renaming is semantics-preserving whatever the match (the library uses no reflection: R14-DYN), so a wrong match can
    only make a rule fail to recognise a role, never hide a violation."""
    log = []
    meth_map = {}
    for file, tree in trees.items():
        v = vocab.get(file)
        if not v or "attrs" not in v:
            continue
        amap = {}
        for c in tree.body:
            if not isinstance(c, ast.ClassDef) or c.name not in v["attrs"]:
                continue
            base = [tuple(x) for x in v["attrs"][c.name]]
            cur = [tuple(x) for x in class_attrs(c)]
            bnames, cnames = [a for a, _ in base], [a for a, _ in cur]
            missing = [(a, i) for a, i in base if a not in cnames]
            new = [(a, i) for a, i in cur if a not in bnames]
            pairs = []
            for a, init in list(missing):
                cands = [b for b, bi in new if bi is not None and bi == init]
                if init is not None and len(cands) == 1 and sum(1 for a2, i2 in missing if i2 == init) == 1:
                    pairs.append((cands[0], a))
                    new = [(b, bi) for b, bi in new if b != cands[0]]
                    missing = [(a2, i2) for a2, i2 in missing if a2 != a]
            if missing and len(missing) == len(new):
                pairs += [(b, a) for (a, _), (b, _) in zip(missing, new)]
            for b, a in pairs:
                if b in amap and amap[b] != a:
                    continue
                amap[b] = a
            # methods
            bm = v["params"].get(c.name, {})
            cm = {f.name: [x.arg for x in f.args.args] for f in c.body if isinstance(f, ast.FunctionDef)}
            lost = [m for m in bm if m not in cm]
            gained = [m for m in cm if m not in bm]
            for m in lost:
                cands = [g for g in gained if cm[g] == bm[m] or len(cm[g]) == len(bm[m])]
                exact = [g for g in cands if cm[g] == bm[m]]
                pick = exact if len(exact) == 1 else (cands if len(cands) == 1 and len(lost) == 1 else [])
                if len(pick) == 1 and pick[0] not in meth_map:
                    meth_map[pick[0]] = m
                    gained.remove(pick[0])
        if amap:
            for n in ast.walk(tree):
                if isinstance(n, ast.Attribute) and n.attr in amap:
                    n.attr = amap[n.attr]
                elif isinstance(n, ast.keyword) and False:
                    pass
            log.append("%s: attributes renamed back %s" % (file, sorted(amap.items())))
    # the new name must belong to the renamed class only (every `.g` in the packages is renamed): not a baseline name of any
    # class and defined exactly once now
    count = {}
    for t in trees.values():
        for c in t.body:
            if isinstance(c, ast.ClassDef):
                for f in c.body:
                    if isinstance(f, ast.FunctionDef):
                        count[f.name] = count.get(f.name, 0) + 1
    baseline_names = {m for v in vocab.values() for ms in v.get("params", {}).values() for m in ms}
    meth_map = {g: m for g, m in meth_map.items() if count.get(g) == 1 and g not in baseline_names}
    if meth_map:
        for t in trees.values():
            for n in ast.walk(t):
                if isinstance(n, ast.Attribute) and n.attr in meth_map:
                    n.attr = meth_map[n.attr]
                elif isinstance(n, ast.FunctionDef) and n.name in meth_map:
                    n.name = meth_map[n.name]
        log.append("methods renamed back %s" % sorted(meth_map.items()))
    return log


def local_names(fn):
    out = set(a.arg for a in fn.args.args + fn.args.kwonlyargs)
    for n in ast.walk(fn):
        if isinstance(n, ast.Name) and isinstance(n.ctx, ast.Store):
            out.add(n.id)
        elif isinstance(n, ast.FunctionDef) and n is not fn:
            out.add(n.name)
    return out


def src(e):
    return " ".join(ast.unparse(e).split())


# ---------------------------------------------------------------------------
# N1 helper inlining


class _Rename(ast.NodeTransformer):
    def __init__(self, mapping, exprs):
        self.mapping = mapping      # local name -> new local name
        self.exprs = exprs          # parameter name -> replacement expression AST

    def visit_Name(self, n):
        if n.id in self.exprs and isinstance(n.ctx, ast.Load):
            return copy.deepcopy(self.exprs[n.id])
        if n.id in self.mapping:
            return ast.copy_location(ast.Name(id=self.mapping[n.id], ctx=n.ctx), n)
        return n


def simple_arg(e):
    """Expressions that may be substituted textually for a parameter (no side effects, cheap)."""
    if isinstance(e, (ast.Constant, ast.Name)):
        return True
    if isinstance(e, ast.Attribute):
        return simple_arg(e.value)
    if isinstance(e, ast.Subscript):
        return simple_arg(e.value) and simple_arg(e.slice)
    if isinstance(e, ast.Call) and isinstance(e.func, ast.Attribute) and e.func.attr.startswith("get_") and not e.args and not e.keywords:
        return simple_arg(e.func.value)
    if isinstance(e, ast.UnaryOp):
        return simple_arg(e.operand)
    if isinstance(e, ast.BinOp):
        return simple_arg(e.left) and simple_arg(e.right)
    return False


RET = "__retval__"


def _has_return(s):
    return any(isinstance(n, ast.Return) for n in ast.walk(s))


def eliminate_returns(stmts):
    """Rewrite a statement list whose returns are all outside loops/try/with into one without `return`: the value goes to
    the local RET and the statements after a returning branch move into the other branch.
    Returns (new statements, always_returns) or None when a return sits inside a loop / try / with / nested function."""
    out = []
    for i, s in enumerate(stmts):
        if isinstance(s, ast.Return):
            out.append(ast.Assign(targets=[ast.Name(id=RET, ctx=ast.Store())], value=s.value if s.value is not None else ast.Constant(value=None)))
            return out, True
        if isinstance(s, ast.If) and _has_return(s):
            a = eliminate_returns(s.body)
            b = eliminate_returns(s.orelse)
            if a is None or b is None:
                return None
            (body, ra), (orelse, rb) = a, b
            rest = stmts[i + 1:]
            if ra and rb:
                out.append(ast.If(test=s.test, body=body, orelse=orelse))
                return out, True
            r = eliminate_returns(rest)
            if r is None:
                return None
            rest2, rr = r
            if ra:
                out.append(ast.If(test=s.test, body=body, orelse=orelse + rest2))
                return out, rr
            if rb:
                out.append(ast.If(test=s.test, body=body + rest2, orelse=orelse))
                return out, rr
            return None     # a branch returns on some of its paths only: needs a flag, not handled
        if isinstance(s, (ast.For, ast.While)) and not s.orelse and _has_return(s):
            # returns inside a loop: value to RET, flag DONE, break (propagated through enclosing loops); what follows the loop
            # runs only when the loop was not left that way
            r = eliminate_returns(stmts[i + 1:])
            if r is None:
                return None
            rest2, rr = r
            nested = any(isinstance(x, (ast.For, ast.While)) and _has_return(x) for b0 in s.body for x in ast.walk(b0))
            own_breaks = any(isinstance(x, ast.Break) for b0 in s.body for x in ast.walk(b0))
            if not nested and not own_breaks:
                # loop/else: the else clause runs exactly when the loop was not left through one of the (former) returns
                body = _loop_returns(s.body, flag=False)
                if body is None:
                    return None
                new = copy.copy(s)
                new.body = body
                new.orelse = rest2
                out.append(new)
                return out, rr
            body = _loop_returns(s.body)
            if body is None:
                return None
            new = copy.copy(s)
            new.body = body
            out.append(new)
            if rest2:
                out.append(ast.If(test=ast.UnaryOp(op=ast.Not(), operand=ast.Name(id=DONE, ctx=ast.Load())), body=rest2, orelse=[]))
            return out, rr
        if _has_return(s):
            return None
        out.append(s)
    return out, False


DONE = "__returned__"


def _loop_returns(stmts, flag=True):
    """Inside a loop body: `return X` -> RET = X; DONE = True; break.  An inner loop that may set DONE is followed by `if DONE: break`."""
    out = []
    for s in stmts:
        if isinstance(s, ast.Return):
            out.append(ast.Assign(targets=[ast.Name(id=RET, ctx=ast.Store())], value=s.value if s.value is not None else ast.Constant(value=None)))
            if flag:
                out.append(ast.Assign(targets=[ast.Name(id=DONE, ctx=ast.Store())], value=ast.Constant(value=True)))
            out.append(ast.Break())
            return out
        if isinstance(s, ast.If) and _has_return(s):
            a, b = _loop_returns(s.body, flag), _loop_returns(s.orelse, flag)
            if a is None or b is None:
                return None
            out.append(ast.If(test=s.test, body=a, orelse=b))
            continue
        if isinstance(s, (ast.For, ast.While)) and _has_return(s):
            if s.orelse:
                return None
            b = _loop_returns(s.body)
            if b is None:
                return None
            new = copy.copy(s)
            new.body = b
            out.append(new)
            out.append(ast.If(test=ast.Name(id=DONE, ctx=ast.Load()), body=[ast.Break()], orelse=[]))
            continue
        if _has_return(s):
            return None
        out.append(s)
    return out


def helper_shape(fn):
    """(body statements without docstring and without returns, result expression or None) if inlinable."""
    body = list(fn.body)
    if body and isinstance(body[0], ast.Expr) and isinstance(body[0].value, ast.Constant) and isinstance(body[0].value.value, str):
        body = body[1:]
    if fn.args.vararg or fn.args.kwarg or fn.args.kwonlyargs:
        return None
    for s in body:
        for n in ast.walk(s):
            if isinstance(n, (ast.Yield, ast.YieldFrom, ast.FunctionDef, ast.Lambda, ast.Global, ast.Nonlocal)):
                return None
    ret = None
    if body and isinstance(body[-1], ast.Return) and not any(_has_return(x) for x in body[:-1]):
        return body[:-1], body[-1].value
    if not any(_has_return(x) for x in body):
        return body, None
    r = eliminate_returns(copy.deepcopy(body))
    if r is None:
        return None
    new, always = r
    if not always:
        new = [ast.Assign(targets=[ast.Name(id=RET, ctx=ast.Store())], value=ast.Constant(value=None))] + new
    if any(isinstance(x, ast.Name) and x.id == DONE for t in new for x in ast.walk(t)):
        new = [ast.Assign(targets=[ast.Name(id=DONE, ctx=ast.Store())], value=ast.Constant(value=False))] + new
    for x in new:
        ast.fix_missing_locations(x)
    return new, ast.Name(id=RET, ctx=ast.Load())


def drop_result_stores(stmts, name):
    """Remove the assignments to the (unused) result variable `name`; empty branches are repaired."""
    out = []
    for s in stmts:
        if isinstance(s, ast.Assign) and len(s.targets) == 1 and isinstance(s.targets[0], ast.Name) and s.targets[0].id == name:
            continue
        if isinstance(s, ast.If):
            s.body = drop_result_stores(s.body, name)
            s.orelse = drop_result_stores(s.orelse, name)
            if not s.body and not s.orelse:
                out.append(ast.copy_location(ast.Expr(value=s.test), s))
                continue
            if not s.body:
                s.test = negate(s.test)
                s.body, s.orelse = s.orelse, []
        out.append(s)
    return out


class Inliner:
    def __init__(self, file, tree, vocab):
        self.file = file
        self.tree = tree
        v = vocab.get(file, {"classes": {}, "functions": {}})
        self.known_functions = set(v["functions"])
        self.known_methods = {c: set(m) for c, m in v["classes"].items()}
        self.module_helpers = {n.name: n for n in tree.body if isinstance(n, ast.FunctionDef) and n.name not in self.known_functions}
        self.counter = 0
        self.inlined = []

    def helpers_of(self, cls):
        known = self.known_methods.get(cls.name)
        if known is None:
            return {}
        out = {}
        for f in cls.body:
            if isinstance(f, ast.FunctionDef) and f.name not in known and not f.name.startswith("__") and f.name not in MULTIPLY_DEFINED[0]:
                # (a method name defined in several classes may be an override: self.m() is dispatched on the instance's class,
                # inlining the definition found here would be wrong for subclasses)
                out[f.name] = f
        return out

    def inline_properties(self, cls, helpers):
        """New `@property` methods whose body is a single `return expr`: every read `self.<name>` is replaced by expr."""
        props = {}
        for name, f in helpers.items():
            if any(isinstance(d, ast.Name) and d.id == "property" for d in f.decorator_list) and len(f.args.args) == 1:
                shape = helper_shape(f)
                if shape is not None and not shape[0] and shape[1] is not None:
                    props[name] = shape[1]
        if not props:
            return
        me = self

        class Sub(ast.NodeTransformer):
            def visit_Attribute(self, n):
                self.generic_visit(n)
                if isinstance(n.ctx, ast.Load) and isinstance(n.value, ast.Name) and n.value.id == "self" and n.attr in props:
                    me.inlined.append("%s -> (property)" % n.attr)
                    return ast.copy_location(copy.deepcopy(props[n.attr]), n)
                return n
        for f in cls.body:
            if isinstance(f, ast.FunctionDef) and f.name not in props:
                Sub().visit(f)
                ast.fix_missing_locations(f)
        cls.body = [f for f in cls.body if not (isinstance(f, ast.FunctionDef) and f.name in props)]

    def run(self):
        for node in self.tree.body:
            if isinstance(node, ast.ClassDef):
                helpers = self.helpers_of(node)
                for hf in helpers.values():
                    # temporaries of a new helper are new by definition: fold them so that more helpers are single expressions
                    try:
                        split_tuple_assigns(hf)
                        substitute_new_temps(hf, set(a.arg for a in hf.args.args))
                    except RecursionError:
                        pass
                self.inline_properties(node, helpers)
                helpers = self.helpers_of(node)
                for _ in range(3):
                    changed = False
                    for f in node.body:
                        if isinstance(f, ast.FunctionDef):
                            changed |= self.inline_in(f, node, helpers)
                    if not changed:
                        break
            elif isinstance(node, ast.FunctionDef):
                for _ in range(3):
                    if not self.inline_in(node, None, {}):
                        break
        return self.inlined

    def match_call(self, call, cls, helpers):
        """Return (helper FunctionDef, is_method) if `call` calls an inlinable new helper."""
        f = call.func
        if isinstance(f, ast.Attribute) and isinstance(f.value, ast.Name) and cls is not None:
            if f.value.id in ("self", cls.name) and f.attr in helpers:
                return helpers[f.attr], True
        if isinstance(f, ast.Name) and f.id in self.module_helpers:
            return self.module_helpers[f.id], False
        return None, False

    def bind(self, helper, is_method, call):
        params = [a.arg for a in helper.args.args]
        static = any(isinstance(d, ast.Name) and d.id == "staticmethod" for d in helper.decorator_list)
        if is_method and not static:
            params = params[1:]
        defaults = helper.args.defaults
        vals = {}
        for p, a in zip(params, call.args):
            vals[p] = a
        for k in call.keywords:
            if k.arg is None or k.arg not in params:
                return None
            vals[k.arg] = k.value
        for p, d in zip(params[len(params) - len(defaults):], defaults):
            vals.setdefault(p, d)
        if set(vals) != set(params) or any(isinstance(a, ast.Starred) for a in call.args):
            return None
        return params, vals

    def instantiate(self, helper, is_method, call):
        shape = helper_shape(helper)
        if shape is None:
            return None
        b = self.bind(helper, is_method, call)
        if b is None:
            return None
        params, vals = b
        body, ret = shape
        self.counter += 1
        tag = "__%s%d_" % (helper.name.strip("_"), self.counter)
        assigned = set()
        for s in body:
            for n in ast.walk(s):
                if isinstance(n, ast.Name) and isinstance(n.ctx, ast.Store):
                    assigned.add(n.id)
        exprs, pre, mapping = {}, [], {}
        for p in params:
            if p not in assigned and simple_arg(vals[p]):
                exprs[p] = vals[p]
            else:
                mapping[p] = tag + p
                pre.append(ast.Assign(targets=[ast.Name(id=tag + p, ctx=ast.Store())], value=copy.deepcopy(vals[p])))
        for n in assigned:
            if n not in mapping:
                mapping[n] = tag + n
        rn = _Rename(mapping, exprs)
        new_body = [rn.visit(copy.deepcopy(s)) for s in body]
        new_ret = rn.visit(copy.deepcopy(ret)) if ret is not None else None
        for s in pre + new_body:
            ast.copy_location(s, call)
            ast.fix_missing_locations(s)
        return pre + new_body, new_ret

    def inline_generator_loop(self, s, cls, helpers, fn):
        """for v in self._gen(args): BODY  with _gen a new generator helper built only from loops / ifs and `yield e` /
        `yield from L` statements: the helper's body with every yield replaced by (v = e; BODY) resp. (for v in L: BODY).
        BODY must not break/return out of the loop being replaced... a return is fine (it leaves the function either way),
        break / for-else are not."""
        if not (isinstance(s, ast.For) and not s.orelse and isinstance(s.iter, ast.Call)):
            return None
        h, is_m = self.match_call(s.iter, cls, helpers)
        if h is None or h is fn:
            return None
        if not any(isinstance(x, (ast.Yield, ast.YieldFrom)) for x in ast.walk(h)):
            return None
        if any(isinstance(x, ast.Break) for b in s.body for x in ast.walk(b)):
            return None
        b = self.bind(h, is_m, s.iter)
        if b is None:
            return None
        params, vals = b
        if not all(simple_arg(vals[p]) for p in params):
            return None
        body = list(h.body)
        if body and isinstance(body[0], ast.Expr) and isinstance(body[0].value, ast.Constant) and isinstance(body[0].value.value, str):
            body = body[1:]
        self.counter += 1
        tag = "__%s%d_" % (h.name.strip("_"), self.counter)
        assigned = {n.id for t in body for n in ast.walk(t) if isinstance(n, ast.Name) and isinstance(n.ctx, ast.Store)}
        mapping = {n: tag + n for n in assigned}
        rn = _Rename(mapping, {p: vals[p] for p in params if p not in assigned})
        ok = [True]
        loop_body, target = s.body, s.target

        def conv(stmts):
            out = []
            for t in stmts:
                if isinstance(t, ast.Expr) and isinstance(t.value, ast.Yield):
                    if t.value.value is None:
                        ok[0] = False
                        continue
                    out.append(ast.Assign(targets=[copy.deepcopy(target)], value=t.value.value))
                    out.extend(copy.deepcopy(loop_body))
                elif isinstance(t, ast.Expr) and isinstance(t.value, ast.YieldFrom):
                    out.append(ast.For(target=copy.deepcopy(target), iter=t.value.value, body=copy.deepcopy(loop_body), orelse=[]))
                elif isinstance(t, (ast.For, ast.While)) and not t.orelse:
                    n2 = copy.copy(t)
                    n2.body = conv(t.body)
                    out.append(n2)
                elif isinstance(t, ast.If):
                    n2 = copy.copy(t)
                    n2.body = conv(t.body)
                    n2.orelse = conv(t.orelse)
                    out.append(n2)
                elif any(isinstance(x, (ast.Yield, ast.YieldFrom, ast.Return)) for x in ast.walk(t)):
                    ok[0] = False
                else:
                    out.append(t)
            return out
        new = conv([rn.visit(copy.deepcopy(t)) for t in body])
        if not ok[0]:
            return None
        for t in new:
            ast.copy_location(t, s)
            ast.fix_missing_locations(t)
        self.inlined.append("%s -> %s (generator)" % (h.name, fn.name))
        return new

    def hoist_nested(self, s, cls, helpers, fn):
        """A statement-level-inlinable helper call nested inside a simple statement's expression (or an if-test) is evaluated
        into a temporary first, when nothing that could observe the difference is evaluated before it."""
        if isinstance(s, ast.If):
            root = s.test
            field = "test"
        elif isinstance(s, (ast.Expr, ast.Assign, ast.AugAssign, ast.AnnAssign, ast.Return)) and getattr(s, "value", None) is not None:
            root = s.value
            field = "value"
        else:
            return None
        h0, _ = self.match_call(root, cls, helpers) if isinstance(root, ast.Call) else (None, False)
        if h0 is not None and field == "value":
            return None
        par = {}
        for a in ast.walk(root):
            for b in ast.iter_child_nodes(a):
                par[id(b)] = a
        cands = []
        for n in ast.walk(root):
            if isinstance(n, ast.Call):
                h, is_m = self.match_call(n, cls, helpers)
                if h is not None and h is not fn:
                    shape = helper_shape(h)
                    if shape is not None and (shape[0] or shape[1] is None):
                        cands.append(n)
        if len(cands) != 1:
            return None
        H = cands[0]
        anc = set()
        q = H
        while id(q) in par:
            q = par[id(q)]
            anc.add(id(q))
            if isinstance(q, (ast.Lambda, ast.ListComp, ast.SetComp, ast.DictComp, ast.GeneratorExp, ast.IfExp)):
                return None
            if isinstance(q, ast.BoolOp) and not any(x is H for x in ast.walk(q.values[0])):
                return None
        for n in ast.walk(root):
            if isinstance(n, ast.Call) and n is not H and id(n) not in anc and not any(x is n for x in ast.walk(H)):
                if not pure_expr(n):
                    return None
        if isinstance(s, (ast.Assign, ast.AugAssign, ast.AnnAssign)):
            tg = s.targets if isinstance(s, ast.Assign) else [s.target]
            if any(not isinstance(t, ast.Name) for t in tg):
                return None     # a subscript / attribute target is evaluated around the value: keep the order
        self.counter += 1
        name = "__hoist%d" % self.counter

        class Rep(ast.NodeTransformer):
            def visit_Call(self, n):
                if n is H:
                    return ast.copy_location(ast.Name(id=name, ctx=ast.Load()), n)
                return self.generic_visit(n)
        if root is H:
            setattr(s, field, ast.copy_location(ast.Name(id=name, ctx=ast.Load()), H))
        else:
            setattr(s, field, Rep().visit(root))
        new = ast.Assign(targets=[ast.Name(id=name, ctx=ast.Store())], value=H)
        ast.copy_location(new, s)
        ast.fix_missing_locations(new)
        ast.fix_missing_locations(s)
        return new

    def inline_in(self, fn, cls, helpers):
        changed = [False]
        me = self

        def in_block(stmts):
            out = []
            for s in stmts:
                g = me.inline_generator_loop(s, cls, helpers, fn)
                if g is not None:
                    out.extend(in_block(g))
                    changed[0] = True
                    continue
                # recurse into compound statements first
                for field in ("body", "orelse", "finalbody"):
                    b = getattr(s, field, None)
                    if isinstance(b, list) and b and isinstance(b[0], ast.stmt):
                        setattr(s, field, in_block(b))
                call = None
                kind = None
                hoisted = me.hoist_nested(s, cls, helpers, fn)
                if hoisted is not None:
                    # `__hoistN = helper(..)` now precedes the statement; handle both in order
                    out.extend(in_block([hoisted]))
                    changed[0] = True
                if isinstance(s, ast.Expr) and isinstance(s.value, ast.Call):
                    call, kind = s.value, "expr"
                elif isinstance(s, (ast.Assign, ast.AugAssign, ast.AnnAssign)) and isinstance(s.value, ast.Call):
                    call, kind = s.value, "assign"
                elif isinstance(s, ast.Return) and isinstance(s.value, ast.Call):
                    call, kind = s.value, "return"
                if call is not None:
                    h, is_m = me.match_call(call, cls, helpers)
                    if h is not None and h is not fn:
                        inst = me.instantiate(h, is_m, call)
                        if inst is not None:
                            body, ret = inst
                            if kind == "expr" and isinstance(ret, ast.Name):
                                body = drop_result_stores(body, ret.id)
                                for x in body:
                                    ast.fix_missing_locations(x)
                            out.extend(body)
                            if kind == "expr":
                                pass
                            else:
                                s.value = ret if ret is not None else ast.Constant(value=None)
                                ast.fix_missing_locations(s)
                                out.append(s)
                            changed[0] = True
                            me.inlined.append("%s -> %s" % (h.name, fn.name))
                            continue
                # expression-level inlining of single-return helpers
                s2 = me.inline_exprs(s, fn, cls, helpers, changed)
                out.append(s2)
            return out
        fn.body = in_block(fn.body)
        return changed[0]

    def inline_exprs(self, stmt, fn, cls, helpers, changed):
        me = self

        class T(ast.NodeTransformer):
            def visit_Call(self, n):
                self.generic_visit(n)
                h, is_m = me.match_call(n, cls, helpers)
                if h is None or h is fn:
                    return n
                shape = helper_shape(h)
                if shape is None or shape[0] or shape[1] is None:
                    return n
                b = me.bind(h, is_m, n)
                if b is None:
                    return n
                params, vals = b
                if not all(simple_arg(vals[p]) for p in params):
                    # only substitute when every argument is cheap and pure, otherwise keep the call
                    uses = {p: sum(1 for x in ast.walk(shape[1]) if isinstance(x, ast.Name) and x.id == p) for p in params}
                    if any(uses[p] > 1 and not simple_arg(vals[p]) for p in params):
                        return n
                new = _Rename({}, {p: vals[p] for p in params}).visit(copy.deepcopy(shape[1]))
                changed[0] = True
                me.inlined.append("%s -> %s (expr)" % (h.name, fn.name))
                return ast.copy_location(new, n)

            def visit_FunctionDef(self, n):
                return n
        # only the statement's own expressions (nested blocks were handled by the caller)
        for field, val in ast.iter_fields(stmt):
            if field in ("body", "orelse", "finalbody", "handlers"):
                continue
            if isinstance(val, ast.AST):
                setattr(stmt, field, T().visit(val))
            elif isinstance(val, list):
                setattr(stmt, field, [T().visit(v) if isinstance(v, ast.AST) else v for v in val])
        ast.fix_missing_locations(stmt)
        return stmt


# ---------------------------------------------------------------------------
# N2 guard clauses


def negate(test):
    if isinstance(test, ast.UnaryOp) and isinstance(test.op, ast.Not):
        return test.operand
    if isinstance(test, ast.Compare) and len(test.ops) == 1:
        neg = {ast.Is: ast.IsNot, ast.IsNot: ast.Is, ast.Eq: ast.NotEq, ast.NotEq: ast.Eq, ast.Lt: ast.GtE, ast.GtE: ast.Lt,
               ast.Gt: ast.LtE, ast.LtE: ast.Gt, ast.In: ast.NotIn, ast.NotIn: ast.In}
        op = neg.get(type(test.ops[0]))
        if op is not None and type(test.ops[0]) in (ast.Is, ast.IsNot, ast.In, ast.NotIn):
            return ast.copy_location(ast.Compare(left=test.left, ops=[op()], comparators=test.comparators), test)
    return ast.copy_location(ast.UnaryOp(op=ast.Not(), operand=test), test)


def guard_clauses(fn):
    n_changed = [0]

    def fix_loop_body(stmts):
        out = []
        for i, s in enumerate(stmts):
            fix_children(s)
            if isinstance(s, ast.If) and not s.orelse and s.body and isinstance(s.body[-1], ast.Continue) and i + 1 < len(stmts):
                rest = fix_loop_body(stmts[i + 1:])
                head = s.body[:-1]
                if any(isinstance(x, (ast.Break, ast.Continue)) for h in head for x in ast.walk(h)):
                    out.append(s)
                    continue
                n_changed[0] += 1
                if head:
                    new = ast.If(test=s.test, body=head, orelse=rest)
                else:
                    new = ast.If(test=negate(s.test), body=rest, orelse=[])
                ast.copy_location(new, s)
                ast.fix_missing_locations(new)
                out.append(new)
                return out
            out.append(s)
        return out

    def fix_children(s):
        if isinstance(s, (ast.For, ast.While)):
            s.body = fix_loop_body(s.body)
            for x in s.orelse:
                fix_children(x)
        else:
            for field in ("body", "orelse"):
                b = getattr(s, field, None)
                if isinstance(b, list) and b and isinstance(b[0], ast.stmt):
                    for x in b:
                        fix_children(x)
    for s in fn.body:
        fix_children(s)
    return n_changed[0]


# ---------------------------------------------------------------------------
# N3 new temporaries


def pure_expr(e):
    for n in ast.walk(e):
        if isinstance(n, ast.Call):
            name = src(n.func)
            if name.startswith(IMPURE_NP):
                return False
            if name.startswith(PURE_NS):
                continue
            if isinstance(n.func, ast.Name) and n.func.id in PURE_CALL_NAMES:
                continue
            if isinstance(n.func, ast.Attribute) and n.func.attr.startswith("get_"):
                continue
            if isinstance(n.func, ast.Attribute) and n.func.attr in ("not_opened",):
                continue
            return False
        if isinstance(n, (ast.GeneratorExp, ast.Lambda, ast.Yield, ast.Await, ast.NamedExpr, ast.List, ast.Dict, ast.Set)):
            return False        # (a list comprehension of pure parts is pure and, substituted once, builds an equal list)
    return True


MULTIPLY_DEFINED = [set()]     # method names defined in more than one class of the analysed packages
REBOUND = [None]      # attribute names rebound through `self.<attr> = ...` outside __init__ anywhere in the analysed packages


def is_const_attr(n):
    """self.<attr> where <attr> is assigned in constructors only: the attribute always denotes the same object."""
    return REBOUND[0] is not None and isinstance(n, ast.Attribute) and isinstance(n.value, ast.Name) and n.value.id == "self" and \
        n.attr not in REBOUND[0]


STABLE = [set()]       # attributes of self that no method reachable from the function being normalised rebinds


def stable_attrs(cls_node, fn):
    """self.<attr> that cannot be rebound by a self.method() call made from fn: none of the class's methods reachable from fn
    through self-calls (fn itself excluded - its own stores are seen directly) stores the attribute."""
    if cls_node is None:
        return set()
    methods = {f.name: f for f in cls_node.body if isinstance(f, ast.FunctionDef)}
    def callees(f):
        out = set()
        for n in ast.walk(f):
            if isinstance(n, ast.Attribute) and isinstance(n.value, ast.Name) and n.value.id in ("self", cls_node.name) and n.attr in methods:
                out.add(n.attr)
        return out
    reach, todo = set(), list(callees(fn))
    while todo:
        m = todo.pop()
        if m in reach:
            continue
        reach.add(m)
        todo += list(callees(methods[m]))
    unknown_bases = bool(cls_node.bases) and any(src(b) not in ("Algorithm", "ABC", "object", "P_node", "Partition") for b in cls_node.bases)
    rebound = set()
    for m in reach:
        for n in ast.walk(methods[m]):
            if isinstance(n, ast.Attribute) and isinstance(n.ctx, (ast.Store, ast.Del)) and isinstance(n.value, ast.Name) and n.value.id == "self":
                rebound.add(n.attr)
    # calls of inherited methods that are not defined in this class: be conservative
    inherited_calls = False
    for m in [fn] + [methods[x] for x in reach]:
        for n in ast.walk(m):
            if isinstance(n, ast.Call) and isinstance(n.func, ast.Attribute) and isinstance(n.func.value, ast.Name) and n.func.value.id == "self" \
                    and n.func.attr not in methods:
                inherited_calls = True
    if inherited_calls and unknown_bases:
        return set()
    attrs = set()
    for n in ast.walk(fn):
        if isinstance(n, ast.Attribute) and isinstance(n.value, ast.Name) and n.value.id == "self":
            attrs.add(n.attr)
    return {a for a in attrs if a not in rebound and a not in methods}


def reads(e):
    out = set()
    skip = set()
    for n in ast.walk(e):
        if id(n) in skip:
            continue
        if is_const_attr(n):
            skip.add(id(n.value))
            continue
        if isinstance(n, ast.Attribute) and isinstance(n.value, ast.Name) and n.value.id == "self" and n.attr in STABLE[0]:
            out.add(src(n))
            skip.add(id(n.value))
            continue
        if isinstance(n, ast.Name):
            out.add(n.id)
        elif isinstance(n, ast.Attribute):
            try:
                out.add(src(n))
            except Exception:
                pass
        elif isinstance(n, ast.Subscript):
            # an element read depends on the container's contents: changed by a store / mutator call through the same
            # container expression (matched by text), by a call of an own method that (transitively) mutates that attribute's
            # container, by tree growth (make_children / deepen, for any container - the layers and child lists grow), or by
            # a call of an unknown plain function ('<heap>')
            out.add("<heap>")
            if not stable_index(n.slice):
                out.add("<heap:TREE>")
            try:
                out.add(src(n.value))
                out.add("<heap:%s>" % src(n.value))
            except Exception:
                pass
        elif isinstance(n, ast.Call):
            name = src(n.func)
            if (name.startswith(PURE_NS) and not name.startswith(IMPURE_NP)) or (isinstance(n.func, ast.Name) and n.func.id in PURE_CALL_NAMES):
                continue
            if isinstance(n.func, ast.Attribute) and n.func.attr.startswith("get_") and not n.args and not n.keywords and REBOUND[0] is not None and \
                    n.func.attr[4:] not in REBOUND[0] and is_const_attr(n.func.value):
                skip.add(id(n.func))
                continue        # getter of a constructor-only field of a constructor-only attribute: always the same object
            # the result of a getter depends on the object's state: represent by a pseudo-location
            out.add("<state>")
    return out


def stable_index(sl):
    """An index that keeps denoting the same element while the tree grows: the tree's lists (layers, layer table, child lists,
    learner lists) are append-only (C03's R03-OWN / step rules), so a non-negative position is stable; positions counted from
    the end (negative, len()-based) and slices are not."""
    if isinstance(sl, ast.Slice):
        return False
    for x in ast.walk(sl):
        if isinstance(x, ast.UnaryOp) and isinstance(x.op, ast.USub):
            return False
        if isinstance(x, ast.Constant) and isinstance(x.value, (int, float)) and x.value < 0:
            return False
        if isinstance(x, ast.Call):
            return False
    return True


def collect_multiply_defined(trees):
    count = {}
    for tree in trees:
        for c in tree.body:
            if isinstance(c, ast.ClassDef):
                for f in c.body:
                    if isinstance(f, ast.FunctionDef):
                        count[f.name] = count.get(f.name, 0) + 1
    return {n for n, k in count.items() if k > 1}


def collect_rebound(trees):
    out = set()
    for tree in trees:
        for c in ast.walk(tree):
            if not isinstance(c, ast.ClassDef):
                continue
            for f in c.body:
                if not isinstance(f, ast.FunctionDef) or f.name == "__init__":
                    continue
                for n in ast.walk(f):
                    if isinstance(n, ast.Attribute) and isinstance(n.ctx, (ast.Store, ast.Del)) and isinstance(n.value, ast.Name) and n.value.id == "self":
                        out.add(n.attr)
    return out


def writes_of(stmt):
    """Names / attribute chains a statement may modify (conservative); '<state>' for any call that is not pure."""
    out = set()
    for n in ast.walk(stmt):
        if isinstance(n, ast.Name) and isinstance(n.ctx, ast.Store):
            out.add(n.id)
        elif isinstance(n, ast.Attribute) and isinstance(n.ctx, ast.Store):
            out.add(src(n))
            out.add("<state>")
        elif isinstance(n, ast.Subscript) and isinstance(n.ctx, ast.Store):
            out.add("<state>")
            b = n.value
            while isinstance(b, (ast.Subscript,)):
                b = b.value
            try:
                out.add(src(b))
            except Exception:
                pass
        elif isinstance(n, ast.Call):
            name = src(n.func)
            if name.startswith(PURE_NS) and not name.startswith(IMPURE_NP):
                continue
            if isinstance(n.func, ast.Name) and n.func.id in PURE_CALL_NAMES:
                continue
            if isinstance(n.func, ast.Attribute) and (n.func.attr.startswith("get_") or n.func.attr in ("not_opened",)):
                continue
            out.add("<state>")
            if isinstance(n.func, ast.Attribute):
                m = n.func.attr
                b = n.func.value
                while isinstance(b, ast.Subscript):
                    b = b.value
                try:
                    out.add(src(b))
                except Exception:
                    pass
                if m in TREE_GROWERS:
                    out.add("<heap:TREE>")
                if m in CONTAINER_MUTATORS:
                    try:
                        out.add("<heap:%s>" % src(n.func.value))
                    except Exception:
                        pass
                if isinstance(n.func.value, ast.Name) and n.func.value.id == "self":
                    attrs, grows = CONTAINER_WRITES[0].get(m, (None, True))
                    if grows:
                        out.add("<heap:TREE>")
                    if attrs is None:
                        out.add("<heap>")           # inherited / unknown own method
                    else:
                        for a in attrs:
                            out.add("<heap:self.%s>" % a)
            else:
                out.add("<heap>")
                out.add("<heap:TREE>")
    return out


TREE_GROWERS = {"make_children", "deepen", "expand", "update_children"}
CONTAINER_MUTATORS = {"append", "extend", "insert", "pop", "remove", "sort", "reverse", "clear", "update", "setdefault", "popitem", "add", "discard"}
CONTAINER_WRITES = [{}]     # own method name -> (attributes whose containers it may mutate, may grow the tree), transitive over self-calls


def container_writes(cls_node):
    methods = {f.name: f for f in cls_node.body if isinstance(f, ast.FunctionDef)}
    direct = {}
    calls = {}
    for name, f in methods.items():
        attrs, grows, cs = set(), False, set()
        for n in ast.walk(f):
            if isinstance(n, ast.Subscript) and isinstance(n.ctx, (ast.Store, ast.Del)):
                b = n.value
                while isinstance(b, ast.Subscript):
                    b = b.value
                if isinstance(b, ast.Attribute) and isinstance(b.value, ast.Name) and b.value.id == "self":
                    attrs.add(b.attr)
            if isinstance(n, ast.Call) and isinstance(n.func, ast.Attribute):
                m = n.func.attr
                if m in TREE_GROWERS:
                    grows = True
                r = n.func.value
                while isinstance(r, ast.Subscript):
                    r = r.value
                if m in CONTAINER_MUTATORS and isinstance(r, ast.Attribute) and isinstance(r.value, ast.Name) and r.value.id == "self":
                    attrs.add(r.attr)
                if isinstance(n.func.value, ast.Name) and n.func.value.id == "self":
                    cs.add(m)
        direct[name] = (attrs, grows)
        calls[name] = cs
    out = {}
    for name in methods:
        seen, todo = set(), [name]
        attrs, grows = set(), False
        unknown = False
        while todo:
            m = todo.pop()
            if m in seen:
                continue
            seen.add(m)
            if m not in methods:
                unknown = True
                continue
            attrs |= direct[m][0]
            grows |= direct[m][1]
            todo += list(calls[m])
        out[name] = (None if unknown else attrs, grows or unknown)
    return out


def _mentions_name(t, name):
    return any(isinstance(n, ast.Name) and n.id == name for n in ast.walk(t))


def _uses_safe(stmts, name, deps):
    """Every use of `name` in the statement list is evaluated before anything the list does can change `deps`."""
    idxs = [k for k, t in enumerate(stmts) if _mentions_name(t, name)]
    if not idxs:
        return True
    last = idxs[-1]
    for k, t in enumerate(stmts[:last + 1]):
        if not (writes_of(t) & deps):
            continue        # nothing here touches the inputs (re-evaluation of a pure expression inside a loop is harmless)
        if k < last:
            return False
        return _last_use_safe(t, name, deps)
    return True


def _last_use_safe(t, name, deps):
    if isinstance(t, ast.If):
        if writes_of(ast.Expr(value=t.test)) & deps:
            return False
        return _uses_safe(t.body, name, deps) and _uses_safe(t.orelse, name, deps)
    if isinstance(t, ast.For):
        inside_head = {id(x) for x in ast.walk(t.iter)}
        uses_t = [x for x in ast.walk(t) if isinstance(x, ast.Name) and x.id == name]
        return bool(uses_t) and all(id(x) in inside_head for x in uses_t) and not (writes_of(ast.Expr(value=t.iter)) & deps)
    if isinstance(t, (ast.Assign, ast.AugAssign, ast.Return, ast.Expr)):
        # every use is evaluated before the write takes effect: the right-hand side of an assignment, or the arguments of
        # the statement's single state-changing call
        impure = [x for x in ast.walk(t) if isinstance(x, ast.Call) and "<state>" in writes_of(ast.Expr(value=x))]
        if not impure:
            if isinstance(t, (ast.Assign, ast.AugAssign)):
                tg = t.targets if isinstance(t, ast.Assign) else [t.target]
                if any(_mentions_name(x, name) for x in tg):
                    return False        # used inside the store target (index): evaluated after the value, still before the store
            return True
        if len(impure) == 1:
            inside_args = set()
            for a in list(impure[0].args) + [k.value for k in impure[0].keywords]:
                for x in ast.walk(a):
                    inside_args.add(id(x))
            uses_t = [x for x in ast.walk(t) if isinstance(x, ast.Name) and x.id == name]
            return bool(uses_t) and all(id(x) in inside_args for x in uses_t)
    return False


def substitute_new_temps(fn, known_locals):
    """Forward-substitute single-assignment new locals within one statement list (straight-line region)."""
    n_sub = [0]

    def process(stmts):
        i = 0
        while i < len(stmts):
            s = stmts[i]
            for field in ("body", "orelse"):
                b = getattr(s, field, None)
                if isinstance(b, list) and b and isinstance(b[0], ast.stmt):
                    process(b)
            if isinstance(s, ast.Assign) and len(s.targets) == 1 and isinstance(s.targets[0], ast.Name) \
                    and s.targets[0].id not in known_locals and pure_expr(s.value) and \
                    (not s.targets[0].id.startswith("__") or (simple_arg(s.value) and not isinstance(s.value, (ast.Constant, ast.Name)))):
                name = s.targets[0].id
                # single definition in the whole function, no augmented assignment
                defs = [n for n in ast.walk(fn) if isinstance(n, ast.Name) and n.id == name and isinstance(n.ctx, (ast.Store, ast.Del))]
                if len(defs) == 1:
                    # every use must be in the statements after s in this list (incl. nested), before any write to the inputs
                    deps = reads(s.value)
                    uses_elsewhere = [n for n in ast.walk(fn) if isinstance(n, ast.Name) and n.id == name and isinstance(n.ctx, ast.Load)]
                    later = stmts[i + 1:]
                    inside = [n for t in later for n in ast.walk(t) if isinstance(n, ast.Name) and n.id == name and isinstance(n.ctx, ast.Load)]
                    if uses_elsewhere and len(inside) == len(uses_elsewhere):
                        ok = _uses_safe(later, name, deps)
                        if ok:
                            val = s.value

                            class Sub(ast.NodeTransformer):
                                def visit_Name(self, n):
                                    if n.id == name and isinstance(n.ctx, ast.Load):
                                        return ast.copy_location(copy.deepcopy(val), n)
                                    return n
                            for k, t in enumerate(later):
                                later[k] = Sub().visit(t)
                                ast.fix_missing_locations(later[k])
                            stmts[i + 1:] = later
                            del stmts[i]
                            n_sub[0] += 1
                            continue
            i += 1
    process(fn.body)
    return n_sub[0]


def _blocks(fn):
    """Every statement list of the function (the lists themselves, so they can be edited in place)."""
    out = []
    stack = [fn]
    while stack:
        n = stack.pop()
        for field in ("body", "orelse", "finalbody"):
            b = getattr(n, field, None)
            if isinstance(b, list) and b and isinstance(b[0], ast.stmt):
                out.append(b)
                for x in b:
                    if not isinstance(x, (ast.FunctionDef, ast.ClassDef)):
                        stack.append(x)
        for h in getattr(n, "handlers", []) or []:
            stack.append(h)
    return out


def split_tuple_assigns(fn):
    """N0: `a, b = x, y` -> `a = x; b = y` when no right-hand side reads (or can be affected by storing) an earlier target."""
    k = 0
    for b in _blocks(fn):
        i = 0
        while i < len(b):
            s = b[i]
            if isinstance(s, ast.Assign) and len(s.targets) == 1 and isinstance(s.targets[0], ast.Tuple) and \
                    isinstance(s.value, (ast.Tuple, ast.List)) and len(s.targets[0].elts) == len(s.value.elts) and \
                    not any(isinstance(x, ast.Starred) for x in s.targets[0].elts + s.value.elts):
                tg, vs = s.targets[0].elts, s.value.elts
                ok = True
                for j in range(1, len(vs)):
                    r = reads(vs[j])
                    for t in tg[:j]:
                        if isinstance(t, ast.Name):
                            if t.id in r:
                                ok = False
                        else:
                            if "<state>" in r or src(t) in r or any(src(t).startswith(x + "[") or src(t).startswith(x + ".") for x in r):
                                ok = False
                if ok:
                    new = []
                    for t, v in zip(tg, vs):
                        a = ast.Assign(targets=[t], value=v)
                        ast.copy_location(a, s)
                        ast.fix_missing_locations(a)
                        new.append(a)
                    b[i:i + 1] = new
                    i += len(new)
                    k += 1
                    continue
            i += 1
    return k


def while_true_breaks(fn):
    """N4: `while True: if c: break; REST` -> `while not c: REST` (repeated for several leading breaks)."""
    k = 0
    for w in [n for n in ast.walk(fn) if isinstance(n, ast.While)]:
        while isinstance(w.test, ast.Constant) and w.test.value is True or (w.body and _leading_break(w.body[0]) and not w.orelse and k < 0):
            if not (w.body and _leading_break(w.body[0])) or w.orelse or len(w.body) < 2:
                break
            c = w.body[0].test
            w.test = negate(c)
            w.body = w.body[1:]
            k += 1
            # further leading breaks are conjoined
            while len(w.body) >= 2 and _leading_break(w.body[0]):
                w.test = ast.BoolOp(op=ast.And(), values=[w.test, negate(w.body[0].test)])
                w.body = w.body[1:]
            ast.fix_missing_locations(w)
            break
    return k


def _leading_break(s):
    return isinstance(s, ast.If) and not s.orelse and len(s.body) == 1 and isinstance(s.body[0], ast.Break)


def count_loops(fn):
    """for v in itertools.count([a]): if c: break; REST  (no continue in REST, v not assigned in REST)  ->
       v = a; while not c: REST; v += 1"""
    k = 0
    for blk in _blocks(fn):
        for i, s in enumerate(blk):
            if not (isinstance(s, ast.For) and not s.orelse and isinstance(s.target, ast.Name) and isinstance(s.iter, ast.Call) and
                    src(s.iter.func) in ("itertools.count", "count") and len(s.iter.args) <= 1 and not s.iter.keywords):
                continue
            if not (s.body and _leading_break(s.body[0])):
                continue
            rest = s.body[1:]
            v = s.target.id
            if any(isinstance(x, ast.Continue) for t in rest for x in ast.walk(t)) or \
                    any(isinstance(x, ast.Name) and x.id == v and isinstance(x.ctx, ast.Store) for t in rest for x in ast.walk(t)):
                continue
            start = s.iter.args[0] if s.iter.args else ast.Constant(value=0)
            init = ast.Assign(targets=[ast.Name(id=v, ctx=ast.Store())], value=start)
            inc = ast.AugAssign(target=ast.Name(id=v, ctx=ast.Store()), op=ast.Add(), value=ast.Constant(value=1))
            w = ast.While(test=negate(s.body[0].test), body=rest + [inc], orelse=[])
            for t in (init, w):
                ast.copy_location(t, s)
                ast.fix_missing_locations(t)
            blk[i:i + 1] = [init, w]
            k += 1
            return k + count_loops(fn)
    return k


def counter_whiles(fn):
    """N5: `i = a` ... `while i < b: BODY; i += 1` -> `for i in range(a, b): BODY`."""
    k = 0
    for b in _blocks(fn):
        for idx, w in enumerate(b):
            if not (isinstance(w, ast.While) and not w.orelse and isinstance(w.test, ast.Compare) and len(w.test.ops) == 1 and
                    isinstance(w.test.left, ast.Name) and isinstance(w.test.ops[0], (ast.Lt, ast.LtE)) and len(w.body) >= 2):
                continue
            i = w.test.left.id
            last = w.body[-1]
            if not (isinstance(last, ast.AugAssign) and isinstance(last.op, ast.Add) and isinstance(last.target, ast.Name) and last.target.id == i and
                    isinstance(last.value, ast.Constant) and last.value.value == 1):
                continue
            body = w.body[:-1]
            if any(isinstance(x, ast.Name) and x.id == i and isinstance(x.ctx, (ast.Store, ast.Del)) for t in body for x in ast.walk(t)):
                continue
            if any(isinstance(x, ast.Continue) for t in body for x in ast.walk(t)):
                continue
            # initialisation: the closest preceding statement of this block that writes i must be `i = a` with nothing in
            # between that reads i
            init = None
            for j in range(idx - 1, -1, -1):
                t = b[j]
                if isinstance(t, ast.Assign) and len(t.targets) == 1 and isinstance(t.targets[0], ast.Name) and t.targets[0].id == i:
                    init = j
                    break
                if any(isinstance(x, ast.Name) and x.id == i for x in ast.walk(t)):
                    break
            if init is None:
                continue
            bound = w.test.comparators[0]
            a = b[init].value
            deps = reads(bound)
            if i in deps or i in reads(a):
                continue
            if any(writes_of(t) & deps for t in body) or any(writes_of(t) & reads(a) for t in b[init + 1:idx]):
                continue
            # i must not be read after the loop (a for loop leaves the last value, the while loop leaves the bound)
            after = False
            loop_ids = {id(x) for x in ast.walk(w)}
            for x in ast.walk(fn):
                if isinstance(x, ast.Name) and x.id == i and isinstance(x.ctx, ast.Load) and id(x) not in loop_ids and \
                        (getattr(x, "lineno", 0), getattr(x, "col_offset", 0)) > (w.lineno, w.col_offset):
                    after = True
            if after:
                continue
            hi = bound if isinstance(w.test.ops[0], ast.Lt) else ast.BinOp(left=bound, op=ast.Add(), right=ast.Constant(value=1))
            args = [hi] if isinstance(a, ast.Constant) and a.value == 0 else [a, hi]
            f = ast.For(target=ast.Name(id=i, ctx=ast.Store()), iter=ast.Call(func=ast.Name(id="range", ctx=ast.Load()), args=args, keywords=[]),
                        body=body, orelse=[])
            ast.copy_location(f, w)
            ast.fix_missing_locations(f)
            b[idx] = f
            del b[init]
            k += 1
            return k + counter_whiles(fn)
    return k


def scalarise_tuple_temps(fn):
    """An inliner temporary T whose every definition is `T = (e1, .., ek)` and whose only use is `a1, .., ak = T`:
    each definition becomes k assignments T_i = e_i and the use becomes a_i = T_i."""
    k = 0
    names = {n.id for n in ast.walk(fn) if isinstance(n, ast.Name) and n.id.startswith("__")}
    for T in sorted(names):
        stores = []
        loads = []
        for b in _blocks(fn):
            for s in b:
                if isinstance(s, ast.Assign) and len(s.targets) == 1 and isinstance(s.targets[0], ast.Name) and s.targets[0].id == T:
                    stores.append((b, s))
                elif isinstance(s, ast.Assign) and isinstance(s.value, ast.Name) and s.value.id == T:
                    loads.append((b, s))
        n_store = sum(1 for n in ast.walk(fn) if isinstance(n, ast.Name) and n.id == T and isinstance(n.ctx, ast.Store))
        n_load = sum(1 for n in ast.walk(fn) if isinstance(n, ast.Name) and n.id == T and isinstance(n.ctx, ast.Load))
        if n_load != 1 or len(loads) != 1 or n_store != len(stores) or not stores:
            continue
        lb, ls = loads[0]
        if not (len(ls.targets) == 1 and isinstance(ls.targets[0], ast.Tuple)):
            continue
        ar = len(ls.targets[0].elts)
        if not all(isinstance(st.value, ast.Tuple) and len(st.value.elts) == ar for _, st in stores):
            continue
        for b, st in stores:
            new = [ast.Assign(targets=[ast.Name(id="%s_%d" % (T, j), ctx=ast.Store())], value=e) for j, e in enumerate(st.value.elts)]
            # simultaneous semantics: no element may read a component assigned earlier in this group (they are fresh names) - fine
            for x in new:
                ast.copy_location(x, st)
                ast.fix_missing_locations(x)
            b[b.index(st):b.index(st) + 1] = new
        new = [ast.Assign(targets=[t], value=ast.Name(id="%s_%d" % (T, j), ctx=ast.Load())) for j, t in enumerate(ls.targets[0].elts)]
        for x in new:
            ast.copy_location(x, ls)
            ast.fix_missing_locations(x)
        lb[lb.index(ls):lb.index(ls) + 1] = new
        k += 1
    return k


def rename_multi_def_temps(fn):
    """`x = __t` where this copy is the only read of the inliner temporary __t and x does not occur anywhere except after the
    copy: __t is x - rename every definition and drop the copy."""
    k = 0
    again = True
    while again:
        again = False
        for b in _blocks(fn):
            for i, s in enumerate(b):
                if isinstance(s, ast.Assign) and len(s.targets) == 1 and isinstance(s.targets[0], ast.Name) and isinstance(s.value, ast.Name) and \
                        s.value.id.startswith("__") and s.targets[0].id != s.value.id:
                    x, t = s.targets[0].id, s.value.id
                    loads = [n for n in ast.walk(fn) if isinstance(n, ast.Name) and n.id == t and isinstance(n.ctx, ast.Load)]
                    if len(loads) != 1:
                        continue
                    # region: the body of the innermost loop enclosing the copy (one iteration), else the whole function;
                    # every definition of t lies in the region, and inside the region x occurs only strictly after the copy
                    par = {}
                    for a in ast.walk(fn):
                        for c2 in ast.iter_child_nodes(a):
                            par[id(c2)] = a
                    region = fn
                    cur = s
                    while id(cur) in par:
                        cur = par[id(cur)]
                        if isinstance(cur, (ast.For, ast.While)):
                            region = cur
                            break
                    region_ids = {id(n) for n in ast.walk(region)}
                    if any(isinstance(n, ast.Name) and n.id == t and id(n) not in region_ids for n in ast.walk(fn)):
                        continue
                    after = []
                    cur = s
                    while cur is not region and id(cur) in par:
                        p2 = par[id(cur)]
                        for field in ("body", "orelse", "finalbody"):
                            blk = getattr(p2, field, None)
                            if isinstance(blk, list) and cur in blk:
                                after.extend(blk[blk.index(cur) + 1:])
                        cur = p2
                    ids_after = {id(n) for u in after for n in ast.walk(u)} | {id(s.targets[0])}
                    if any(isinstance(n, ast.Name) and n.id == x and id(n) not in ids_after for n in ast.walk(region)):
                        continue
                    if isinstance(region, ast.While) and any(isinstance(n, ast.Name) and n.id in (x, t) for n in ast.walk(region.test)):
                        continue
                    for n in ast.walk(fn):
                        if isinstance(n, ast.Name) and n.id == t:
                            n.id = x
                    del b[i]
                    k += 1
                    again = True
                    break
            if again:
                break
    return k


def eliminate_result_copies(fn):
    """x = __t where EVERY definition of the local x is a copy of the same inliner temporary __t, and __t is not stored
    between any of those copies and a use of x it reaches (decided on the function's control-flow graph): x is __t - its uses
    are renamed and the copies dropped."""
    from . import cfg as C
    from . import effects as E
    import networkx as nx
    k = 0
    params = {a.arg for a in fn.args.args}
    cands = {}
    for n in ast.walk(fn):
        if isinstance(n, ast.Name) and isinstance(n.ctx, (ast.Store, ast.Del)) and not n.id.startswith("__") and n.id not in params:
            cands.setdefault(n.id, []).append(n)
    if not cands:
        return 0
    g = None
    for x, stores in sorted(cands.items()):
        copies = []
        for b in _blocks(fn):
            for st in b:
                if isinstance(st, ast.Assign) and len(st.targets) == 1 and isinstance(st.targets[0], ast.Name) and st.targets[0].id == x and \
                        isinstance(st.value, ast.Name) and st.value.id.startswith("__"):
                    copies.append((b, st))
        if not copies or len(copies) != len(stores) or len({st.value.id for _, st in copies}) != 1:
            continue
        t = copies[0][1].value.id
        if g is None:
            try:
                g = C.CFG(fn)
            except Exception:
                return k
        try:
            cnodes = [g.node_of(st) for _, st in copies]
        except Exception:
            continue
        H = g.G.subgraph([n for n in g.G.nodes if n not in cnodes])
        ok = True
        for c in cnodes:
            region = set()
            for s2 in g.G.successors(c):
                if s2 in H:
                    region |= nx.descendants(H, s2) | {s2}
            uses = [n for n in region if n.ast is not None and any(isinstance(y, ast.Name) and y.id == x and isinstance(y.ctx, ast.Load)
                                                                   for r in E.node_exprs(n) for y in ast.walk(r))]
            for n in region:
                if t in E.stored_locs(n):
                    # a store to t after the copy: unsafe if a use of x is still reachable from there
                    after = nx.descendants(H, n) & set(uses) if n in H else set()
                    if after or n in uses:
                        ok = False
                        break
            if not ok:
                break
        if not ok:
            continue
        for n in ast.walk(fn):
            if isinstance(n, ast.Name) and n.id == x and isinstance(n.ctx, ast.Load):
                n.id = t
        for b, st in copies:
            b.remove(st)
            if not b:
                b.append(ast.copy_location(ast.Pass(), st))
        k += 1
        g = None
    return k


def forward_unpack_targets(fn, known):
    """`a, b = E` ... `X = b` where the new local b is used nowhere else and nothing between the two statements touches X or has
    effects: the value is unpacked into X directly (`a, X = E`)."""
    k = 0
    for blk in _blocks(fn):
        i = 0
        while i < len(blk):
            s = blk[i]
            if isinstance(s, ast.Assign) and len(s.targets) == 1 and isinstance(s.targets[0], ast.Tuple) and \
                    not isinstance(s.value, (ast.Tuple, ast.List)):
                for j, el in enumerate(s.targets[0].elts):
                    if not (isinstance(el, ast.Name) and el.id not in known and not el.id.startswith("__")):
                        continue
                    occ = [n for n in ast.walk(fn) if isinstance(n, ast.Name) and n.id == el.id]
                    if len(occ) != 2:
                        continue
                    # the single read must be `X = b` later in this block
                    for m in range(i + 1, len(blk)):
                        t = blk[m]
                        if isinstance(t, ast.Assign) and len(t.targets) == 1 and isinstance(t.value, ast.Name) and t.value.id == el.id and \
                                isinstance(t.targets[0], (ast.Attribute, ast.Name)):
                            X = t.targets[0]
                            xs = src(X)
                            between = blk[i + 1:m]
                            if any((writes_of(u) & {"<state>", xs}) or xs in reads(u) or any(src(n2) == xs for n2 in ast.walk(u) if isinstance(n2, (ast.Attribute, ast.Name)))
                                   for u in between):
                                break
                            s.targets[0].elts[j] = copy.deepcopy(X)
                            for n2 in ast.walk(s.targets[0].elts[j]):
                                if hasattr(n2, "ctx") and n2 is s.targets[0].elts[j]:
                                    n2.ctx = ast.Store()
                            ast.fix_missing_locations(s)
                            del blk[m]
                            k += 1
                            break
                        if any(isinstance(n2, ast.Name) and n2.id == el.id for n2 in ast.walk(t)):
                            break
            i += 1
    return k


def thread_bool_flags(fn):
    """T; if f: X else: Y  where T is an if/else tree every path of which ends with `f = True|False` (f an inliner temporary
    used nowhere else): X / Y are moved to the ends of those paths and the test on f disappears (jump threading)."""
    k = 0

    def leaves(stmts, f):
        """assignment sites (block, index, const) at the end of every path through stmts, or None"""
        if not stmts:
            return None
        last = stmts[-1]
        if isinstance(last, ast.Assign) and len(last.targets) == 1 and isinstance(last.targets[0], ast.Name) and last.targets[0].id == f and \
                isinstance(last.value, ast.Constant) and isinstance(last.value.value, bool):
            return [(stmts, len(stmts) - 1, last.value.value)]
        if isinstance(last, ast.If) and last.orelse:
            a, b = leaves(last.body, f), leaves(last.orelse, f)
            if a is None or b is None:
                return None
            return a + b
        return None
    again = True
    while again:
        again = False
        for blk in _blocks(fn):
            for i in range(1, len(blk)):
                s = blk[i]
                if not isinstance(s, ast.If):
                    continue
                t, pol = s.test, True
                while isinstance(t, ast.UnaryOp) and isinstance(t.op, ast.Not):
                    t, pol = t.operand, not pol
                if not (isinstance(t, ast.Name) and t.id.startswith("__")):
                    continue
                f = t.id
                prev = blk[i - 1]
                if not isinstance(prev, ast.If):
                    continue
                lv = leaves([prev], f)
                if lv is None:
                    continue
                # f is read only by this test and written only at the leaves
                reads_f = [n for n in ast.walk(fn) if isinstance(n, ast.Name) and n.id == f and isinstance(n.ctx, ast.Load)]
                writes_f = [n for n in ast.walk(fn) if isinstance(n, ast.Name) and n.id == f and isinstance(n.ctx, ast.Store)]
                if len(reads_f) != 1 or len(writes_f) != len(lv):
                    # an initial `f = None/False` before the tree is tolerated when it is the statement just before it
                    extra = [w for w in writes_f if not any(w is site[0][site[1]].targets[0] for site in lv)]
                    if len(reads_f) != 1 or len(extra) != 1:
                        continue
                    init = None
                    for b2 in _blocks(fn):
                        for st in b2:
                            if isinstance(st, ast.Assign) and st.targets[0] is extra[0]:
                                init = (b2, st)
                    if init is None or init[0] is not blk or blk.index(init[1]) != i - 2:
                        continue
                    blk.remove(init[1])
                    i -= 1
                X, Y = (s.body, s.orelse) if pol else (s.orelse, s.body)
                for site_blk, idx, const in lv:
                    tail = copy.deepcopy(X if const else Y)
                    site_blk[idx:idx + 1] = tail if tail else [ast.copy_location(ast.Pass(), site_blk[idx])]
                del blk[i]
                ast.fix_missing_locations(fn)
                k += 1
                again = True
                break
            if again:
                break
    return k


def cse_const_aliases(fn):
    """A local bound exactly once, at the top level of the function, to an expression that always denotes the same object
    (`node_list = self.partition.get_node_list()`): later spellings of that expression are replaced by the local."""
    k = 0
    for i, s in enumerate(fn.body):
        if not (isinstance(s, ast.Assign) and len(s.targets) == 1 and isinstance(s.targets[0], ast.Name) and
                isinstance(s.value, (ast.Call, ast.Attribute))):
            continue
        x = s.targets[0].id
        if sum(1 for n in ast.walk(fn) if isinstance(n, ast.Name) and n.id == x and isinstance(n.ctx, (ast.Store, ast.Del))) != 1:
            continue
        if reads(s.value):
            continue        # not a constant designator
        text = src(s.value)

        class R(ast.NodeTransformer):
            def generic_visit(self, n):
                nonlocal k
                if isinstance(n, ast.expr) and isinstance(n, (ast.Call, ast.Attribute)) and isinstance(getattr(n, "ctx", ast.Load()), ast.Load) \
                        and src(n) == text:
                    k += 1
                    return ast.copy_location(ast.Name(id=x, ctx=ast.Load()), n)
                return super().generic_visit(n)
        for j in range(i + 1, len(fn.body)):
            fn.body[j] = R().visit(fn.body[j])
            ast.fix_missing_locations(fn.body[j])
    return k


def rename_result_temps(fn):
    """`__tmp = E` ... `x = __tmp` (single definition, single use, x untouched in between, same block) -> `x = E` at the definition."""
    k = 0
    for b in _blocks(fn):
        i = 0
        while i < len(b):
            s = b[i]
            if isinstance(s, ast.Assign) and len(s.targets) == 1 and isinstance(s.targets[0], ast.Name) and isinstance(s.value, ast.Name) and \
                    s.value.id.startswith("__") and not s.targets[0].id.startswith("__"):
                tmp, x = s.value.id, s.targets[0].id
                defs = [n for n in ast.walk(fn) if isinstance(n, ast.Name) and n.id == tmp and isinstance(n.ctx, ast.Store)]
                uses = [n for n in ast.walk(fn) if isinstance(n, ast.Name) and n.id == tmp and isinstance(n.ctx, ast.Load)]
                d = [j for j in range(i) if isinstance(b[j], ast.Assign) and len(b[j].targets) == 1 and isinstance(b[j].targets[0], ast.Name)
                     and b[j].targets[0].id == tmp]
                if len(defs) == 1 and len(uses) == 1 and len(d) == 1 and \
                        not any(isinstance(n, ast.Name) and n.id == x for t in b[d[0]:i] for n in ast.walk(t)):
                    b[d[0]].targets[0].id = x
                    del b[i]
                    k += 1
                    continue
            i += 1
    return k


def expand_return_ifexp(fn):
    """`return A if c else B` -> `if c: return A` / `else: return B`; likewise `x = A if c else B` for a plain name x."""
    k = 0
    for b in _blocks(fn):
        i = 0
        while i < len(b):
            s = b[i]
            if isinstance(s, ast.Assign) and len(s.targets) == 1 and isinstance(s.value, ast.IfExp) and \
                    (isinstance(s.targets[0], ast.Name) or (isinstance(s.targets[0], ast.Attribute) and isinstance(s.targets[0].value, ast.Name))):
                v = s.value
                new = ast.If(test=v.test, body=[ast.Assign(targets=[copy.deepcopy(s.targets[0])], value=v.body)],
                             orelse=[ast.Assign(targets=[copy.deepcopy(s.targets[0])], value=v.orelse)])
                ast.copy_location(new, s)
                ast.fix_missing_locations(new)
                b[i] = new
                k += 1
                continue
            if isinstance(s, ast.Return) and isinstance(s.value, ast.IfExp):
                v = s.value
                new = ast.If(test=v.test, body=[ast.Return(value=v.body)], orelse=[ast.Return(value=v.orelse)])
                ast.copy_location(new, s)
                ast.fix_missing_locations(new)
                b[i] = new
                k += 1
                continue        # re-examine: nested conditional expressions
            i += 1
    return k


def expand_dict_splats(fn):
    """f(**d) where d is a local bound exactly once to a dict display with constant string keys, never mutated or passed
    elsewhere, and whose value expressions are not affected between the display and the call: the keywords are written out."""
    k = 0
    for b in _blocks(fn):
        for i, s in enumerate(b):
            if not (isinstance(s, ast.Assign) and len(s.targets) == 1 and isinstance(s.targets[0], ast.Name) and isinstance(s.value, ast.Dict)):
                continue
            d = s.targets[0].id
            dv = s.value
            if not dv.keys or any(not (isinstance(kk, ast.Constant) and isinstance(kk.value, str) and kk.value.isidentifier()) for kk in dv.keys):
                continue
            occ = [n for n in ast.walk(fn) if isinstance(n, ast.Name) and n.id == d]
            stores = [n for n in occ if isinstance(n.ctx, (ast.Store, ast.Del))]
            if len(stores) != 1:
                continue
            par = {}
            for a in ast.walk(fn):
                for c2 in ast.iter_child_nodes(a):
                    par[id(c2)] = a
            loads = [n for n in occ if isinstance(n.ctx, ast.Load)]
            if not loads or not all(isinstance(par.get(id(n)), ast.keyword) and par[id(n)].arg is None for n in loads):
                continue        # used in some other way (subscript store, passed along, iterated)
            if not all(pure_expr(v) for v in dv.values):
                continue
            deps = set()
            for v in dv.values:
                deps |= reads(v)
            later = b[i + 1:]
            inside = [n for t in later for n in ast.walk(t) if isinstance(n, ast.Name) and n.id == d and isinstance(n.ctx, ast.Load)]
            if len(inside) != len(loads) or not _uses_safe(later, d, deps):
                continue
            for n in loads:
                kwn = par[id(n)]
                call = par[id(kwn)]
                idx = call.keywords.index(kwn)
                call.keywords[idx:idx + 1] = [ast.keyword(arg=kk.value, value=copy.deepcopy(v)) for kk, v in zip(dv.keys, dv.values)]
                ast.fix_missing_locations(call)
            b.remove(s)
            k += 1
            return k + expand_dict_splats(fn)
    return k


def unroll_literal_loops(fn, limit=8):
    """`for a, b in ((1, x), (2, y)): BODY` over a literal tuple/list of at most `limit` elements whose loop variables are not
    assigned in BODY and not used after the loop, without break/continue: BODY is repeated with the elements substituted."""
    k = 0
    for b in _blocks(fn):
        i = 0
        while i < len(b):
            s = b[i]
            if isinstance(s, ast.For) and not s.orelse and isinstance(s.iter, (ast.Tuple, ast.List)) and 0 < len(s.iter.elts) <= limit and \
                    not any(isinstance(x, (ast.Break, ast.Continue)) for t in s.body for x in ast.walk(t)):
                tg = s.target
                names = [tg.id] if isinstance(tg, ast.Name) else ([e.id for e in tg.elts] if isinstance(tg, (ast.Tuple, ast.List)) and
                                                                  all(isinstance(e, ast.Name) for e in tg.elts) else None)
                ok = names is not None
                if ok and not isinstance(tg, ast.Name):
                    ok = all(isinstance(e, (ast.Tuple, ast.List)) and len(e.elts) == len(names) for e in s.iter.elts)
                if ok:
                    ok = not any(isinstance(x, ast.Name) and x.id in names and isinstance(x.ctx, (ast.Store, ast.Del)) for t in s.body for x in ast.walk(t))
                    ok = ok and all(simple_arg(v) for e in s.iter.elts for v in ([e] if isinstance(tg, ast.Name) else e.elts))
                    loop_ids = {id(x) for x in ast.walk(s)}
                    ok = ok and not any(isinstance(x, ast.Name) and x.id in names and id(x) not in loop_ids for x in ast.walk(fn))
                    # the substituted expressions must not be affected by the body (they are re-read at every use)
                    if ok:
                        deps = set()
                        for e in s.iter.elts:
                            deps |= reads(e)
                        ok = not any(writes_of(t) & deps for t in s.body)
                if ok:
                    new = []
                    for e in s.iter.elts:
                        vals = [e] if isinstance(tg, ast.Name) else list(e.elts)
                        rn = _Rename({}, dict(zip(names, vals)))
                        for t in s.body:
                            c = rn.visit(copy.deepcopy(t))
                            ast.fix_missing_locations(c)
                            new.append(c)
                    b[i:i + 1] = new
                    k += 1
                    continue
            i += 1
    return k


def module_constants(tree):
    """Module-level names assigned exactly once, at module level, from an expression built from literals and np./math. calls:
    name -> value AST."""
    out = {}
    counts = {}
    for n in ast.walk(tree):
        if isinstance(n, ast.Name) and isinstance(n.ctx, (ast.Store, ast.Del)):
            counts[n.id] = counts.get(n.id, 0) + 1
        if isinstance(n, (ast.Global, ast.Nonlocal)):
            for x in n.names:
                counts[x] = counts.get(x, 0) + 10
    for s in tree.body:
        if isinstance(s, ast.Assign) and len(s.targets) == 1 and isinstance(s.targets[0], ast.Name) and counts.get(s.targets[0].id) == 1:
            v = s.value
            names = [x.id for x in ast.walk(v) if isinstance(x, ast.Name)]
            if pure_expr(v) and all(x in ("np", "numpy", "math") for x in names) and \
                    any(isinstance(x, (ast.Constant,)) and isinstance(x.value, (int, float)) for x in ast.walk(v)) and \
                    not any(isinstance(x, ast.Constant) and isinstance(x.value, str) for x in ast.walk(v)):
                out[s.targets[0].id] = v
    return out


def substitute_module_constants(tree, consts):
    k = 0
    if not consts:
        return 0
    for fn in [n for n in ast.walk(tree) if isinstance(n, ast.FunctionDef)]:
        shadow = local_names(fn)

        class Sub(ast.NodeTransformer):
            def visit_Name(self, n):
                nonlocal k
                if isinstance(n.ctx, ast.Load) and n.id in consts and n.id not in shadow:
                    k += 1
                    return ast.copy_location(copy.deepcopy(consts[n.id]), n)
                return n

            def visit_FunctionDef(self, n):
                if n is fn:
                    return self.generic_visit(n)
                return n
        Sub().visit(fn)
        ast.fix_missing_locations(fn)
    return k


REBOUND_SITES = [None]     # attr -> set of "Class.method" that rebind self.<attr>


def collect_rebound_sites(trees):
    out = {}
    for tree in trees:
        for c in ast.walk(tree):
            if not isinstance(c, ast.ClassDef):
                continue
            for f in c.body:
                if not isinstance(f, ast.FunctionDef):
                    continue
                for n in ast.walk(f):
                    if isinstance(n, ast.Attribute) and isinstance(n.ctx, (ast.Store, ast.Del)) and isinstance(n.value, ast.Name) and n.value.id == "self":
                        out.setdefault(n.attr, set()).add("%s.%s" % (c.name, f.name))
    return out


def _later_statements(fn, stmt):
    """Statements that can execute after `stmt` within one call of fn: the rest of every enclosing block, and the whole body
    of every enclosing loop."""
    par = {}
    for a in ast.walk(fn):
        for b in ast.iter_child_nodes(a):
            par[id(b)] = a
    out = []
    cur = stmt
    while cur is not fn and id(cur) in par:
        p = par[id(cur)]
        for field in ("body", "orelse", "finalbody"):
            blk = getattr(p, field, None)
            if isinstance(blk, list) and cur in blk:
                out.extend(blk[blk.index(cur) + 1:])
        if isinstance(p, (ast.For, ast.While)):
            out.extend(p.body)
            out.extend(p.orelse)
            if isinstance(p, ast.While):
                out.append(ast.Expr(value=p.test))
        cur = p
    return out


def _occurs(name, stmts):
    return any(isinstance(n, ast.Name) and n.id == name for t in stmts for n in ast.walk(t))


def coalesce_copies(fn):
    """`__t = x` where x is a local that is dead afterwards: the inliner's parameter copy is the same variable - rename __t to x."""
    k = 0
    again = True
    while again:
        again = False
        for b in _blocks(fn):
            for i, s in enumerate(b):
                if isinstance(s, ast.Assign) and len(s.targets) == 1 and isinstance(s.targets[0], ast.Name) and isinstance(s.value, ast.Name) and \
                        s.targets[0].id.startswith("__") and not s.value.id.startswith("__") and s.value.id != "self":
                    t, x = s.targets[0].id, s.value.id
                    later = [u for u in _later_statements(fn, s) if u is not s]
                    if _occurs(x, later):
                        continue
                    # t must not be live before the copy (its first definition is this copy)
                    first = None
                    for n in ast.walk(fn):
                        pass
                    defs_before = [n for blk in _blocks(fn) for u in blk for n in ast.walk(u) if isinstance(n, ast.Name) and n.id == t]
                    earlier = [u for blk in _blocks(fn) for u in blk]
                    # conservative: every occurrence of t lies in `s` or in the later statements
                    occ_all = sum(1 for n in ast.walk(fn) if isinstance(n, ast.Name) and n.id == t)
                    occ_later = sum(1 for u in later for n in ast.walk(u) if isinstance(n, ast.Name) and n.id == t)
                    # (later may list nested statements twice: compare as sets of node ids)
                    ids_all = {id(n) for n in ast.walk(fn) if isinstance(n, ast.Name) and n.id == t}
                    ids_later = {id(n) for u in later for n in ast.walk(u) if isinstance(n, ast.Name) and n.id == t} | {id(s.targets[0])}
                    if ids_all != ids_later:
                        continue
                    for n in ast.walk(fn):
                        if isinstance(n, ast.Name) and n.id == t:
                            n.id = x
                    del b[i]
                    k += 1
                    again = True
                    break
            if again:
                break
    return k


def fold_none_tests(fn, cname):
    """`if self.a is not None:` where self.a was bound to a list/dict/tuple display earlier in this function on every path
    (an earlier statement of an enclosing block) and no other method except constructors rebinds it: the test is constant."""
    sites = REBOUND_SITES[0]
    if sites is None or cname is None:
        return 0
    k = 0
    me = "%s.%s" % (cname, fn.name)
    par = {}
    for a in ast.walk(fn):
        for b in ast.iter_child_nodes(a):
            par[id(b)] = a

    def non_none_before(stmt, attr):
        """an assignment self.attr = <display> among the earlier siblings of stmt or of its ancestors, with no other
        assignment of self.attr anywhere in fn that is not such a display"""
        for n in ast.walk(fn):
            if isinstance(n, ast.Attribute) and isinstance(n.ctx, (ast.Store, ast.Del)) and isinstance(n.value, ast.Name) and n.value.id == "self" \
                    and n.attr == attr:
                a = par.get(id(n))
                if not (isinstance(a, ast.Assign) and len(a.targets) == 1 and isinstance(a.value, (ast.List, ast.Dict, ast.Tuple, ast.ListComp))):
                    return False
        cur = stmt
        while cur is not fn and id(cur) in par:
            p = par[id(cur)]
            for field in ("body", "orelse"):
                blk = getattr(p, field, None)
                if isinstance(blk, list) and cur in blk:
                    for u in blk[:blk.index(cur)]:
                        if isinstance(u, ast.Assign) and len(u.targets) == 1 and isinstance(u.targets[0], ast.Attribute) and \
                                isinstance(u.targets[0].value, ast.Name) and u.targets[0].value.id == "self" and u.targets[0].attr == attr:
                            return True
            cur = p
        return False
    for b in _blocks(fn):
        i = 0
        while i < len(b):
            s = b[i]
            if isinstance(s, ast.If) and isinstance(s.test, ast.Compare) and len(s.test.ops) == 1 and isinstance(s.test.ops[0], (ast.Is, ast.IsNot)) and \
                    isinstance(s.test.comparators[0], ast.Constant) and s.test.comparators[0].value is None:
                subj = s.test.left
                val = None
                if isinstance(subj, ast.Constant) and subj.value is None:
                    val = isinstance(s.test.ops[0], ast.Is)
                elif isinstance(subj, ast.Attribute) and isinstance(subj.value, ast.Name) and subj.value.id == "self":
                    where = sites.get(subj.attr, set())
                    if where <= {me, "%s.__init__" % cname} and non_none_before(s, subj.attr):
                        val = isinstance(s.test.ops[0], ast.IsNot)
                if val is not None:
                    repl = s.body if val else s.orelse
                    b[i:i + 1] = repl
                    k += 1
                    continue
            i += 1
    return k


class _DropBool(ast.NodeTransformer):
    def visit_Call(self, n):
        self.generic_visit(n)
        if isinstance(n.func, ast.Name) and n.func.id == "bool" and len(n.args) == 1 and not n.keywords and \
                isinstance(n.args[0], (ast.Compare, ast.BoolOp, ast.UnaryOp)):
            return n.args[0]
        return n


def normalize_tree(file, tree, vocab):
    """Normalise one module in place; returns a log of what was done."""
    log = []
    # conditional expressions at statement level are opened first, so that helper calls inside them become ordinary statements
    pre = 0
    for f0 in [n for n in ast.walk(tree) if isinstance(n, ast.FunctionDef)]:
        pre += expand_return_ifexp(f0)
    if pre:
        log.append("%d conditional expression(s) at statement level opened into if/else" % pre)
    inliner = Inliner(file, tree, vocab)
    inl = inliner.run()
    if inl:
        log.append("inlined new helpers: %s" % sorted(set(inl)))
        # a new helper with no remaining call is dead code after inlining: drop its definition
        names = {x.split(" -> ")[0] for x in inl}
        called = set()
        for n in ast.walk(tree):
            if isinstance(n, ast.Call):
                f = n.func
                if isinstance(f, ast.Attribute):
                    called.add(f.attr)
                elif isinstance(f, ast.Name):
                    called.add(f.id)
            elif isinstance(n, ast.Attribute) and isinstance(n.ctx, ast.Load):
                called.add(n.attr)       # bound-method references such as key=self._helper
        for node in [tree] + [c for c in tree.body if isinstance(c, ast.ClassDef)]:
            node.body = [f for f in node.body if not (isinstance(f, ast.FunctionDef) and f.name in names and f.name not in called)]
    v = vocab.get(file, {"classes": {}, "functions": {}})
    mc = substitute_module_constants(tree, module_constants(tree))
    if mc:
        log.append("%d use(s) of module-level numeric constants replaced by their definitions" % mc)
    for node in tree.body:
        fns = []
        if isinstance(node, ast.ClassDef):
            for f in node.body:
                if isinstance(f, ast.FunctionDef):
                    fns.append((node.name, f, set(v["classes"].get(node.name, {}).get(f.name, []) or [])
                                if f.name in v["classes"].get(node.name, {}) else None))
        elif isinstance(node, ast.FunctionDef):
            fns.append((None, node, set(v["functions"].get(node.name, [])) if node.name in v["functions"] else None))
        for cname, f, known in fns:
            STABLE[0] = stable_attrs(node if isinstance(node, ast.ClassDef) else None, f)
            CONTAINER_WRITES[0] = container_writes(node) if isinstance(node, ast.ClassDef) else {}
            t0 = split_tuple_assigns(f)
            t0 += expand_return_ifexp(f) + unroll_literal_loops(f) + expand_dict_splats(f)
            t0 += fold_none_tests(f, cname)
            t0 += scalarise_tuple_temps(f)
            t0 += coalesce_copies(f)
            t0 += rename_result_temps(f)
            t0 += rename_multi_def_temps(f)
            t0 += eliminate_result_copies(f)
            t0 += thread_bool_flags(f)
            if t0:
                log.append("%s.%s: %d parallel assignment(s) split / result temporaries renamed" % (cname, f.name, t0))
            w4 = count_loops(f) + while_true_breaks(f) + counter_whiles(f)
            if w4:
                log.append("%s.%s: %d loop(s) brought to while-cond / for-range form" % (cname, f.name, w4))
            g = guard_clauses(f)
            if g:
                log.append("%s.%s: %d guard clause(s) -> if/else" % (cname, f.name, g))
            if known is not None:
                fu = forward_unpack_targets(f, known | set(a.arg for a in f.args.args))
                if fu:
                    log.append("%s.%s: %d unpacked value(s) stored directly" % (cname, f.name, fu))
                k = substitute_new_temps(f, known | set(a.arg for a in f.args.args))
                if k:
                    log.append("%s.%s: %d new temporar%s substituted" % (cname, f.name, k, "y" if k == 1 else "ies"))
            cs = cse_const_aliases(f)
            if cs:
                log.append("%s.%s: %d spelling(s) of a constant designator replaced by its local alias" % (cname, f.name, cs))
            _DropBool().visit(f)
            for blk in _blocks(f):
                if len(blk) > 1 and any(isinstance(x, ast.Pass) for x in blk):
                    blk[:] = [x for x in blk if not isinstance(x, ast.Pass)] or [blk[0]]
            ast.fix_missing_locations(f)
    return log
