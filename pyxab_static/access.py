"""E4 (part 2) - read/write summaries over abstract locations, closed over the call graph.

Locations (field-based):
  'self.<attr>'   attribute of the algorithm instance (containers are one location with their content)
  'NODE.<attr>'   attribute of a tree cell (all cells merged)
  'TREE'          the partition's shape: node_list, depth, child links
  'RNG'           numpy's global generator
  'LEARNER'       state of a base learner driven by a wrapper (POO/GPO/PCT/VPCT)
Reads/writes of locals are ignored (they die with the call).
"""
import ast

from . import cfg as C
from .effects import MUTATING_CONTAINER_METHODS, node_exprs
from .model import call_name, is_self_attr, method_name

P_NODE_CONST_FIELDS = {"depth", "index", "parent", "domain", "c_point"}
P_NODE_GETTERS_CONST = {"get_depth", "get_index", "get_parent", "get_domain", "get_cpoint"}
PARTITION_GROW = {"make_children", "deepen"}
PARTITION_READ = {"get_node_list", "get_layer_node_list", "get_root", "get_depth"}
LEARNER_EXPR_ATTRS = {"curr_algo", "V_algo", "algorithm"}
PURE_NS = ("np.", "numpy.", "math.", "copy.")


def learner_expr(e, fn=None, model=None, depth=0):
    """Does e denote a base learner?  self.curr_algo / self.V_algo[..] / self.algorithm, or a local every one of whose
    assignments in the enclosing function `fn` is such an expression."""
    while isinstance(e, ast.Subscript):
        e = e.value
    if is_self_attr(e) and e.attr in LEARNER_EXPR_ATTRS:
        return True
    if isinstance(e, ast.Name) and e.id != "self" and depth < 3:
        if fn is None and model is not None:
            fn = model.enclosing_function(e)
        if fn is None:
            return False
        if e.id in [a.arg for a in fn.args.args]:
            return False
        vals = []
        for s2 in ast.walk(fn):
            if isinstance(s2, ast.Assign):
                for t in s2.targets:
                    if isinstance(t, ast.Name) and t.id == e.id:
                        vals.append(s2.value)
                    elif isinstance(t, (ast.Tuple, ast.List)) and any(isinstance(x, ast.Name) and x.id == e.id for x in ast.walk(t)):
                        return False
            elif isinstance(s2, (ast.AugAssign, ast.AnnAssign, ast.For, ast.comprehension)) and \
                    any(isinstance(x, ast.Name) and x.id == e.id and isinstance(x.ctx, ast.Store) for x in ast.walk(s2.target)):
                return False
        return bool(vals) and all(learner_expr(v, fn, model, depth + 1) for v in vals)
    return False


class Access:
    def __init__(self, model, eff, algo_cls):
        self.model = model
        self.eff = eff
        self.cls = algo_cls
        self.node_cls = model.node_class_of_algo(algo_cls) if "__init__" in model.classes[algo_cls].methods else None
        self.node_mro = [c.name for c in model.mro(self.node_cls)] if self.node_cls in model.classes else []
        self._sum = {}
        self._cfg = {}
        self._stack = []

    # -- helpers -------------------------------------------------------
    def cfg_of(self, fn):
        if id(fn) not in self._cfg:
            self._cfg[id(fn)] = C.CFG(fn)
        return self._cfg[id(fn)]

    def is_learner_expr(self, e):
        return learner_expr(e, None, self.model)

    def node_method(self, name):
        for c in self.node_mro:
            if name in self.model.classes[c].methods:
                return c, self.model.classes[c].methods[name]
        return None, None

    def node_fields(self):
        out = set()
        for c in self.node_mro:
            for f in self.model.classes[c].methods.values():
                for n in ast.walk(f):
                    if is_self_attr(n) and isinstance(n.ctx, ast.Store):
                        out.add(n.attr)
        return out

    # -- per expression ----------------------------------------------------
    def expr_rw(self, e, role, aliases, R, W, calls):
        """Accumulate reads/writes of evaluating expression `e` (Load context).
        role: 'algo' (self is the algorithm) or 'node' (self is a cell)."""
        for n in ast.walk(e):
            if isinstance(n, ast.Attribute) and isinstance(n.ctx, ast.Load):
                if isinstance(n.value, ast.Name) and n.value.id == "self":
                    if self._is_method(role, n.attr):
                        continue
                    R.add(self._self_loc(role, n.attr))
                elif not self._is_namespace(n.value):
                    a = n.attr
                    if a == "children":
                        R.add("TREE")
                    elif a in P_NODE_CONST_FIELDS:
                        pass
                    elif a in self.node_fields():
                        R.add("NODE." + a)
            elif isinstance(n, ast.Name) and isinstance(n.ctx, ast.Load) and n.id in aliases:
                R.add(aliases[n.id])
            elif isinstance(n, ast.Call):
                calls.append(n)

    def _is_namespace(self, v):
        return isinstance(v, ast.Name) and v.id in ("np", "numpy", "math", "copy", "random")

    def _is_method(self, role, attr):
        if role == "algo":
            return self.model.lookup(self.cls, attr)[1] is not None
        return self.node_method(attr)[1] is not None

    def _self_loc(self, role, attr):
        if role == "algo":
            return "self." + attr
        if attr == "children":
            return "TREE"
        if attr in P_NODE_CONST_FIELDS:
            return "CONST"
        return "NODE." + attr

    def call_rw(self, call, role, aliases, R, W, must):
        """Effects of one call (arguments' reads are collected by expr_rw of the enclosing expr)."""
        name = call_name(call)
        m = method_name(call)
        f = call.func
        if name.startswith(("np.random.", "numpy.random.", "random.")):
            R.add("RNG")
            W.add("RNG")
            return
        if name.startswith(PURE_NS) or isinstance(f, ast.Name) and f.id in (
                "len", "range", "min", "max", "abs", "sum", "sorted", "enumerate", "zip", "list", "tuple", "int", "float",
                "print", "isinstance", "bool", "str", "reversed", "super", "round", "any", "all", "map", "filter", "dict", "set",
                "next", "iter", "islice", "chain", "repeat", "count", "product", "accumulate", "partial", "reduce", "namedtuple"):
            return
        if name in ("chain.from_iterable", "itertools.chain.from_iterable", "itertools.chain", "itertools.islice", "itertools.repeat",
                    "itertools.count", "itertools.product", "itertools.accumulate", "functools.partial", "functools.reduce"):
            # iterator plumbing of the standard library: no state of its own (what the iterated / called objects do is accounted
            # for where they are used)
            return
        if isinstance(f, ast.Attribute):
            recv = f.value
            if isinstance(recv, ast.Call) and isinstance(recv.func, ast.Name) and recv.func.id == "super" and role == "algo":
                # super().m(..) / super(C, self).m(..): the next definition of m after the class that contains the call
                encl = self.model.enclosing_function(call)
                here = None
                for c0 in self.model.classes.values():
                    if encl is not None and any(fn0 is encl for fn0 in c0.methods.values()):
                        here = c0.name
                start = recv.args[0].id if (recv.args and isinstance(recv.args[0], ast.Name) and recv.args[0].id in self.model.classes) else here
                if start is not None:
                    for c1 in self.model.mro(start)[1:]:
                        if m in c1.methods:
                            r, w, mw = self.summary(c1.methods[m], role)
                            R |= r
                            W |= w
                            must |= mw
                            break
                return
            if isinstance(recv, ast.Name) and recv.id == "self":
                owner, fn = (self.model.lookup(self.cls, m) if role == "algo" else
                             (lambda c_f: (self.model.classes[c_f[0]], c_f[1]) if c_f[1] is not None else (None, None))(self.node_method(m)))
                if fn is not None:
                    r, w, mw = self.summary(fn, role)
                    R |= r
                    W |= w
                    must |= mw
                    return
                # stored callable (self.delta, self.algo(...), self.node(...)): constructors create fresh objects
                R.add(self._self_loc(role, m))
                if m in ("algo", "partition"):
                    W.add("LEARNER" if m == "algo" else "TREE")
                return
            if is_self_attr(recv, "partition") or (isinstance(recv, ast.Name) and recv.id == "partition"):
                if m in PARTITION_GROW:
                    R.add("TREE")
                    W.add("TREE")
                    R.add("RNG")
                    W.add("RNG")
                elif m in PARTITION_READ:
                    R.add("TREE")
                else:
                    R.add("TREE")
                    W.add("TREE")
                return
            if self.is_learner_expr(recv):
                R.add("LEARNER")
                if m in ("pull", "receive_reward", "get_last_point"):
                    W.add("LEARNER")
                return
            if m in MUTATING_CONTAINER_METHODS or m in ("keys", "values", "items", "get", "copy", "index", "count"):
                loc = self.container_loc(recv, role, aliases)
                if loc:
                    R.add(loc)
                    if m in MUTATING_CONTAINER_METHODS:
                        W.add(loc)
                return
            # a method of a cell
            if m == "get_children":
                R.add("TREE")
                return
            if m in P_NODE_GETTERS_CONST:
                return
            if m == "update_children":
                W.add("TREE")
                return
            c, fn = self.node_method(m)
            if fn is not None:
                r, w, mw = self.summary(fn, "node")
                R |= r
                W |= w
                return
            if m in ("get_point",):      # Zooming's arm object: immutable after construction
                return
            # unknown method on an unknown receiver: be conservative
            R.add("UNKNOWN:" + name)
            W.add("UNKNOWN:" + name)
            return
        if isinstance(f, ast.Name):
            file = self.model.classes[self.cls].file
            fn = self.model.module_function(file, f.id)
            if fn is not None:
                r, w, mw = self.summary(fn, "module")
                R |= r
                W |= w
                return
            if f.id in self.model.classes or f.id in ("partition", "node", "point", "algo"):
                if f.id == "partition":
                    W.add("TREE")
                return
            R.add("UNKNOWN:" + f.id)
            W.add("UNKNOWN:" + f.id)

    def container_loc(self, e, role, aliases):
        while isinstance(e, ast.Subscript):
            e = e.value
        if is_self_attr(e):
            return self._self_loc(role, e.attr)
        if isinstance(e, ast.Name) and e.id in aliases:
            return aliases[e.id]
        if isinstance(e, ast.Attribute) and not self._is_namespace(e.value):
            if e.attr in self.node_fields():
                return "NODE." + e.attr
            if e.attr == "children":
                return "TREE"
        if isinstance(e, ast.Call) and method_name(e) in ("get_children", "get_node_list", "get_layer_node_list"):
            return "TREE"
        return None

    # -- per CFG node --------------------------------------------------------
    def aliases_of(self, fn, role):
        """Local names bound (anywhere in fn) directly to an instance container / tree container."""
        out = {}
        for n in ast.walk(fn):
            if isinstance(n, ast.Assign) and len(n.targets) == 1 and isinstance(n.targets[0], ast.Name):
                v = n.value
                if is_self_attr(v) and not self._is_method(role, v.attr):
                    out[n.targets[0].id] = self._self_loc(role, v.attr)
                elif isinstance(v, ast.Call) and method_name(v) in ("get_node_list", "get_layer_node_list", "get_children"):
                    out[n.targets[0].id] = "TREE"
        return out

    def node_rw(self, n, role, aliases):
        """(R, W, must_written) of one CFG node."""
        R, W, must = set(), set(), set()
        a = n.ast
        if a is None:
            return R, W, must
        calls = []
        if n.kind == "test":
            self.expr_rw(a.test, role, aliases, R, W, calls)
        elif n.kind == "for":
            self.expr_rw(a.iter, role, aliases, R, W, calls)
        else:
            tg = []
            if isinstance(a, ast.Assign):
                self.expr_rw(a.value, role, aliases, R, W, calls)
                tg = a.targets
            elif isinstance(a, ast.AugAssign):
                self.expr_rw(a.value, role, aliases, R, W, calls)
                tg = [a.target]
                # the target is read as well
                load = ast.parse(ast.unparse(a.target), mode="eval").body
                self.expr_rw(load, role, aliases, R, W, calls)
            elif isinstance(a, ast.AnnAssign):
                if a.value is not None:
                    self.expr_rw(a.value, role, aliases, R, W, calls)
                tg = [a.target]
            elif isinstance(a, (ast.Expr, ast.Return)):
                if a.value is not None:
                    self.expr_rw(a.value, role, aliases, R, W, calls)
            elif isinstance(a, ast.Delete):
                tg = a.targets
            elif isinstance(a, ast.Raise):
                pass
            for t in tg:
                self.target_rw(t, role, aliases, R, W, must, calls, full=isinstance(a, (ast.Assign, ast.AnnAssign)))
        for c in calls:
            self.call_rw(c, role, aliases, R, W, must)
        R.discard("CONST")
        W.discard("CONST")
        return R, W, must

    def target_rw(self, t, role, aliases, R, W, must, calls, full):
        if isinstance(t, (ast.Tuple, ast.List)):
            for e in t.elts:
                self.target_rw(e, role, aliases, R, W, must, calls, full)
            return
        if isinstance(t, ast.Attribute):
            if isinstance(t.value, ast.Name) and t.value.id == "self":
                loc = self._self_loc(role, t.attr)
                W.add(loc)
                if full and role == "algo":
                    must.add(loc)
            else:
                self.expr_rw(t.value, role, aliases, R, W, calls)
                if t.attr == "children":
                    W.add("TREE")
                elif t.attr in self.node_fields() or t.attr in P_NODE_CONST_FIELDS:
                    W.add("NODE." + t.attr)
                else:
                    W.add("UNKNOWN:." + t.attr)
            return
        if isinstance(t, ast.Subscript):
            self.expr_rw(t.slice, role, aliases, R, W, calls)
            loc = self.container_loc(t.value, role, aliases)
            base = t.value
            while isinstance(base, ast.Subscript):
                self.expr_rw(base.slice, role, aliases, R, W, calls)
                base = base.value
            if loc:
                W.add(loc)
                R.add(loc)      # partial update: the rest of the container survives
            return

    # -- summaries -------------------------------------------------------------
    def summary(self, fn, role):
        """(R, W, must_written_at_normal_exit) of a whole function, closed over callees."""
        key = (id(fn), role)
        if key in self._sum:
            return self._sum[key]
        if key in self._stack:
            return set(), set(), set()
        self._stack.append(key)
        try:
            g = self.cfg_of(fn)
            aliases = self.aliases_of(fn, role)
            R, W = set(), set()
            per = {}
            for n in g.nodes:
                r, w, mw = self.node_rw(n, role, aliases)
                per[n] = (r, w, mw)
                R |= r
                W |= w
            must = self.must_written(g, per).get(g.exit, set())
            self._sum[key] = (R, W, must)
            return self._sum[key]
        finally:
            self._stack.pop()

    def per_node(self, fn, role):
        g = self.cfg_of(fn)
        aliases = self.aliases_of(fn, role)
        return g, {n: self.node_rw(n, role, aliases) for n in g.nodes}

    @staticmethod
    def must_written(g, per):
        """Forward must-analysis: locations fully assigned on every path from entry to (before) each node."""
        import networkx as nx
        ALL = None
        IN = {n: ALL for n in g.nodes}
        IN[g.entry] = set()
        order = list(nx.dfs_preorder_nodes(g.G, g.entry))
        changed = True
        while changed:
            changed = False
            for n in order:
                preds = list(g.G.predecessors(n))
                if n is g.entry:
                    new = set()
                else:
                    vals = []
                    for p in preds:
                        if IN[p] is ALL:
                            continue
                        vals.append(IN[p] | per[p][2] if p in per else IN[p])
                    if not vals:
                        continue
                    new = set.intersection(*vals) if vals else set()
                if IN[n] is ALL or new != IN[n]:
                    IN[n] = new
                    changed = True
        return {n: (v if v is not ALL else set()) for n, v in IN.items()}
