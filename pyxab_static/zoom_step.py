"""One abstract execution of Zooming's hand-over code (the statements of receive_reward that follow the expansion of the
refined cell), with the E5 interpreter: the refined cell has K children with independent symbolic boxes, the refined arm is a
symbolic point.  Every outcome of every coordinate comparison is enumerated (exact outcomes are recorded, so `<` and `<=`
are told apart).  On every path the post-state must satisfy the hand-over contract of C11:

  * every child is the cell of exactly one active arm afterwards: either the refined arm or a new arm at the child's centre;
  * the refined arm goes to the FIRST child whose closed box contains it (and to no other); a child that does not contain it
    never takes it;
  * new arms start with pull count 0 and mean 0, nothing else about other arms changes.

The code is read from /repo's source; how it is written (flags, sentinels, for/else, all(), zip, enumerate ...) is irrelevant.
"""
import ast

import sympy as sp

from . import absint as A
from .model import method_name
from .report import AnalysisError, norm_src


class StepProblem(Exception):
    pass


def tail_after_expansion(model, fn):
    """Statements that follow the last make_children-containing statement in the block that also holds the hand-over code."""
    best = None
    for node in ast.walk(fn):
        for field in ("body", "orelse"):
            blk = getattr(node, field, None)
            if not (isinstance(blk, list) and blk and isinstance(blk[0], ast.stmt)):
                continue
            mc = [i for i, s in enumerate(blk) if any(isinstance(x, ast.Call) and method_name(x) == "make_children" for x in ast.walk(s))]
            ho = [i for i, s in enumerate(blk) if any(isinstance(x, ast.Call) and method_name(x) == "make_active" for x in ast.walk(s)) or
                  any(isinstance(x, ast.Subscript) and isinstance(x.ctx, ast.Store) and norm_src(x.value) == "self.active_points" for x in ast.walk(s))]
            if mc and ho and max(mc) < min(ho):
                if best is None or len(blk) < len(best[0]):
                    best = (blk, max(mc))
    if best is None:
        return None, None
    blk, k = best
    return blk[:k + 1], blk[k + 1:]


def pre_assignments(model, fn, tail):
    """Plain local assignments of fn that precede the tail (outside it): executed first so that locals such as `parent` exist."""
    tail_ids = {id(x) for s in tail for x in ast.walk(s)}
    out = []
    for s in ast.walk(fn):
        if isinstance(s, ast.Assign) and id(s) not in tail_ids and len(s.targets) == 1 and isinstance(s.targets[0], ast.Name):
            out.append(s)
    out.sort(key=lambda s: (s.lineno, s.col_offset))
    return out


def sign_sets(decisions):
    """(a, b) -> set of possible signs of a - b (subset of {-1, 0, 1}) implied by the recorded comparison outcomes."""
    table = {}
    SIG = {"Lt": {-1}, "LtE": {-1, 0}, "Gt": {1}, "GtE": {0, 1}, "Eq": {0}, "NotEq": {-1, 1}}
    ALL = {-1, 0, 1}
    for op, a, b, outcome in decisions:
        s = SIG.get(op)
        if s is None:
            continue
        s = s if outcome else ALL - s
        for (x, y, ss) in ((a, b, s), (b, a, {-v for v in s})):
            table[(x, y)] = table.get((x, y), set(ALL)) & ss
    return table


def relation(table, a, b, allowed):
    """True / False / None: is sign(a - b) in `allowed` on this path?"""
    s = table.get((a, b))
    if s is None:
        return None
    if s <= allowed:
        return True
    if not (s & allowed):
        return False
    return None


def run_once(model, tail, pre, K, d, oracle):
    I = A.Interp(model, oracle)
    I.decisions = []
    p = [A.atom("p%d" % k, real=True) for k in range(d)]
    arm = A.Obj("point", p=A.AList(p))
    kids = []
    for j in range(K):
        dom = A.AList([A.AList([A.atom("lo%d_%d" % (j, k), real=True), A.atom("hi%d_%d" % (j, k), real=True)]) for k in range(d)])
        cp = A.AList([A.atom("c%d_%d" % (j, k), real=True) for k in range(d)])
        kids.append(A.Obj("P_node", depth=A.atom("h", integer=True, positive=True), index=j + 1, parent=None, children=None, domain=dom, c_point=cp))
    parent = A.Obj("P_node", depth=A.atom("h0", integer=True, nonnegative=True), index=1, parent=None, children=A.AList(kids),
                   domain=A.AList([]), c_point=A.AList([]))
    for c in kids:
        c.f["parent"] = parent
    other = A.Obj("point", p=A.AList([A.atom("q%d" % k, real=True) for k in range(d)]))
    other_cell = A.Obj("P_node", depth=1, index=7, parent=None, children=None, domain=A.AList([]), c_point=A.AList([]))
    n0, m0 = A.atom("n_arm", integer=True, positive=True), A.atom("mean_arm", real=True)
    n1, m1 = A.atom("n_other", integer=True, nonnegative=True), A.atom("mean_other", real=True)
    zoom = A.Obj("Zooming", active_points={arm: parent, other: other_cell}, pulled_times={arm: n0, other: n1},
                 average_rewards={arm: m0, other: m1}, best_arm=arm, time=A.atom("t", integer=True, positive=True),
                 phase=A.atom("phase", integer=True, positive=True), next_end_time=A.atom("next_end", integer=True, positive=True),
                 nu=A.atom("nu", positive=True), rho=A.atom("rho", positive=True), iteration=A.atom("it", integer=True, positive=True),
                 partition=A.Obj("BinaryPartition", depth=A.atom("D", integer=True, positive=True)))
    env = {"self": zoom, "__owner__": "Zooming", "reward": A.atom("reward", real=True), "time": A.atom("time_arg", integer=True)}
    for s in pre:
        try:
            I.stmt(s, env)
        except (A.PathCrash, A.Unsupported, AnalysisError):
            env.pop(s.targets[0].id, None)
    snapshot = dict(I.decisions and [] or [])
    I.decisions = []
    crash = None
    try:
        I.block(tail, env)
    except A.PathCrash as ex:
        crash = str(ex)
    return dict(I=I, crash=crash, zoom=zoom, arm=arm, kids=kids, parent=parent, other=other, other_cell=other_cell, p=p,
                stats=(n0, m0, n1, m1)), I.trace


def check_paths(model, K, d, limit=4000):
    """Returns (n_paths, problems) for one configuration."""
    fn = model.own_method("Zooming", "receive_reward")
    head, tail = tail_after_expansion(model, fn)
    if tail is None:
        raise StepProblem("the hand-over code after the expansion of the refined cell was not found")
    pre = pre_assignments(model, fn, tail)
    problems = {}
    n = 0
    for oracle, res in A.explore(lambda o: run_once(model, tail, pre, K, d, o), limit=limit):
        n += 1
        if res["crash"] is not None:
            problems.setdefault("the hand-over code raises: %s" % res["crash"], []).append(oracle)
            continue
        I, zoom, arm, kids = res["I"], res["zoom"], res["arm"], res["kids"]
        table = sign_sets(getattr(I, "decisions", []))
        ap, pt, av = zoom.f["active_points"], zoom.f["pulled_times"], zoom.f["average_rewards"]
        # which children closed-contain the arm on this path
        contains = []
        for c in kids:
            verdicts = []
            for k in range(d):
                lo, hi = c.f["domain"][k][0].sym, c.f["domain"][k][1].sym
                verdicts.append(relation(table, res["p"][k].sym, lo, {0, 1}))
                verdicts.append(relation(table, res["p"][k].sym, hi, {-1, 0}))
            if any(v is False for v in verdicts):
                contains.append(False)
            elif all(v is True for v in verdicts):
                contains.append(True)
            else:
                contains.append(None)
        holder = ap.get(arm)
        first = next((j for j, cv in enumerate(contains) if cv is not False), None)
        # the decision taken by the code must be determined by closed containment
        if holder in kids:
            j = kids.index(holder)
            if contains[j] is not True:
                problems.setdefault("the refined arm is handed to a child although the comparisons made do not establish that the child's "
                                    "closed box contains it (strict/non-strict or missing bound test)", []).append(oracle)
            elif any(contains[i] is not False for i in range(j)):
                problems.setdefault("the refined arm is not handed to the FIRST child that contains it", []).append(oracle)
        elif holder is res["parent"]:
            if any(cv is True for cv in contains):
                problems.setdefault("a child contains the refined arm but the arm stays with the refined (now internal) cell", []).append(oracle)
            elif any(cv is None for cv in contains):
                problems.setdefault("a child is denied the arm although the comparisons made do not establish that it lies outside the "
                                    "child's closed box", []).append(oracle)
        else:
            problems.setdefault("the refined arm's cell is neither a child nor the refined cell afterwards", []).append(oracle)
        # every child has exactly one arm afterwards
        for j, c in enumerate(kids):
            owners = [a for a, cell in ap.items() if cell is c]
            if len(owners) != 1:
                problems.setdefault("after the hand-over a child is the cell of %d active arms (expected exactly one)" % len(owners), []).append(oracle)
                continue
            a = owners[0]
            if a is arm:
                continue
            okp = isinstance(a, A.Obj) and a.cls == "point" and (a.f.get("p") is c.f["c_point"] or
                                                                  (isinstance(a.f.get("p"), list) and len(a.f["p"]) == d and
                                                                   all(A._sym(x) == A._sym(y) for x, y in zip(a.f["p"], c.f["c_point"]))))
            if not okp:
                problems.setdefault("a new arm is not placed at its child's centre", []).append(oracle)
            if not (a in pt and a in av and A._sym(pt[a]) == 0 and A._sym(av[a]) == 0):
                problems.setdefault("a new arm does not start with pull count 0 and mean 0", []).append(oracle)
        # frame: the other arm and the refined arm's statistics are untouched, no stray keys
        n0, m0, n1, m1 = res["stats"]
        if ap.get(res["other"]) is not res["other_cell"] or pt.get(res["other"]) is not n1 or av.get(res["other"]) is not m1:
            problems.setdefault("an unrelated arm is changed by the hand-over", []).append(oracle)
        if pt.get(arm) is not n0 or av.get(arm) is not m0:
            problems.setdefault("the refined arm's statistics are changed by the hand-over", []).append(oracle)
        if not (set(ap) == set(pt) == set(av)):
            problems.setdefault("the three arm maps do not have the same keys afterwards", []).append(oracle)
        expected = 2 + sum(1 for c in kids if ap.get(arm) is not c)
        if len(ap) != expected:
            problems.setdefault("unexpected number of active arms afterwards (%d, expected %d)" % (len(ap), expected), []).append(oracle)
    return n, problems
