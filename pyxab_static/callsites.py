"""Call-site obligations of `make_children` (rules R03-NEWLAYER, R03-LEAF; reused by C06/C08).

For every site `P.make_children(X, newlayer=E)` in PyXAB/algos and in
Partition.deepen the two preconditions of the step lemma (C03 R03-STEP) are
discharged from the shape of the code:

  LEAF      X has no children when the call executes
  NEWLAYER  E is true exactly when X sits at the partition's current depth

Each is proved by one of a small set of idioms confirmed by reading PyXAB; a
site where none applies is reported (the obligation is not discharged).
"""
import ast

from . import cfg as C
from . import effects as E
from .model import get_arg, is_self_attr, method_name
from .report import AnalysisError, norm_src

PART_DEPTH = ("self.partition.get_depth()", "self.partition.depth")
PART_DEPTH_INSIDE = ("self.depth", "self.get_depth()")
NODELIST_CALLS = ("self.partition.get_node_list()", "self.partition.node_list", "self.node_list", "self.get_node_list()")


class FnCtx:
    """A function with its CFG and cached facts."""

    def __init__(self, model, eff, cls, fn):
        self.model, self.eff, self.cls, self.fn = model, eff, cls, fn
        self.file = model.file_of.get(id(fn)) or model.classes[cls].file
        self.cfg = C.CFG(fn)
        self.qual = "%s.%s" % (cls, fn.name)
        self._grow = {}

    def grows(self, n):
        r = self._grow.get(n)
        if r is None:
            r = E.cfg_node_grows_tree(self.eff, self.cls, n, self.file)
            self._grow[n] = r
        return r

    def node_of(self, a):
        return self.cfg.node_of(a)

    # -- definitions ------------------------------------------------------
    def defs_of(self, loc):
        """CFG nodes that assign location `loc` (a Name or dotted attribute), with the rhs AST
        (None for loop targets / augmented / tuple-unpacked)."""
        out = []
        for n in self.cfg.nodes:
            a = n.ast
            if a is None:
                continue
            if n.kind == "for":
                if loc in _target_names(a.target):
                    out.append((n, ("for", a.iter, a.target)))
                continue
            if n.kind != "stmt":
                continue
            if isinstance(a, ast.Assign):
                for t in a.targets:
                    if isinstance(t, (ast.Tuple, ast.List)):
                        if loc in _target_names(t):
                            val = None
                            if isinstance(a.value, (ast.Tuple, ast.List)) and len(a.value.elts) == len(t.elts):
                                for te, ve in zip(t.elts, a.value.elts):
                                    if _src(te) == loc:
                                        val = ve
                            out.append((n, ("assign", val) if val is not None else ("unpack", a.value, t)))
                    elif _src(t) == loc:
                        out.append((n, ("assign", a.value)))
            elif isinstance(a, ast.AugAssign) and _src(a.target) == loc:
                out.append((n, ("aug", a.op, a.value)))
            elif isinstance(a, ast.AnnAssign) and _src(a.target) == loc and a.value is not None:
                out.append((n, ("assign", a.value)))
        return out

    def reaching(self, loc, at):
        """Definitions of `loc` that reach CFG node `at` (plus 'ENTRY' if the function entry does)."""
        ds = self.defs_of(loc)
        kills = [d[0] for d in ds]
        out = []
        for n, rhs in ds:
            if self.cfg.paths_avoiding(n, at, [k for k in kills if k is not n]) if n is not at else \
                    self.cfg.paths_avoiding(n, at, [k for k in kills if k is not n]):
                out.append((n, rhs))
        entry = self.cfg.paths_avoiding(self.cfg.entry, at, kills) or self.cfg.entry is at
        return out, entry

    def stores_between(self, a, b, locs, avoid=()):
        """CFG nodes between a and b (on paths avoiding `avoid`) that store one of `locs`."""
        hit = []
        for n in self.cfg.between(a, b, avoid):
            st = E.stored_locs(n)
            if st & set(locs):
                hit.append(n)
        return hit

    def growth_between(self, a, b, avoid=()):
        return [n for n in self.cfg.between(a, b, avoid) if self.grows(n)]


def _src(e):
    try:
        return norm_src(e)
    except Exception:
        return None


def _target_names(t):
    out = set()
    if isinstance(t, (ast.Tuple, ast.List)):
        for e in t.elts:
            out |= _target_names(e)
    else:
        s = _src(t)
        if s:
            out.add(s)
    return out


def deps(expr):
    """Locations whose change invalidates the value of `expr`."""
    return E.names_in(expr)


# ---------------------------------------------------------------------------
# recognisers


def is_nodelist_expr(fc, e, at):
    """Is `e` the partition's per-depth node list (directly or through a local alias)?"""
    s = _src(e)
    if s in NODELIST_CALLS:
        return True
    if isinstance(e, ast.Name):
        ds, entry = fc.reaching(e.id, at)
        if entry or not ds:
            return False
        return all(r[0] == "assign" and _src(r[1]) in NODELIST_CALLS for _, r in ds)
    return False


def layer_of(fc, e, at):
    """If `e` denotes an element of layer NL[D] return the AST of D, else None.
    Forms: NL[D][i]; get_layer_node_list(D)[i]; a Name whose reaching definitions are all such
    (or the target of `for n in NL[D]`)."""
    if isinstance(e, ast.Subscript):
        lay = e.value
        d = layer_index(fc, lay, at)
        if d is not None:
            return d
    if isinstance(e, ast.Name) or is_self_attr(e):
        loc = _src(e)
        ds, entry = fc.reaching(loc, at)
        all_defs = [k for k, _ in fc.defs_of(loc)]
        ds = [(n, r) for n, r in ds if not _none_def(r)]
        if entry and not (is_self_attr(e) and stale_attr_filtered(fc, e, at)):
            return None
        if not ds:
            return None
        found = None
        for n, r in ds:
            if r[0] == "for":
                it = element_var_of_loop(r, loc)
                d = layer_index(fc, it, n) if it is not None else None
            elif r[0] == "assign":
                d = layer_of(fc, r[1], n)
            else:
                return None
            if d is None:
                return None
            # the layer index must still have the same value at `at`
            if fc.stores_between(n, at, deps(d), [k for k in all_defs if k is not n]):
                return None
            if found is not None and _src(found) != _src(d):
                return None
            found = d
        return found
    return None


def _none_def(r):
    return r[0] == "assign" and isinstance(r[1], ast.Constant) and r[1].value is None


def stale_attr_filtered(fc, X, at):
    """X = self.<attr> may hold a value stored by an earlier invocation.  That value cannot reach the
    expansion at `at` as a leaf if (i) the attribute is only assigned in this function (None in
    __init__ aside), (ii) `at` is dominated by a leaf guard T on X, (iii) every assignment of X in this
    function is followed, on every path to the exit, by T, and T's true edge always reaches `at`:
    whatever was selected earlier has been expanded (or was internal already)."""
    attr = X.attr
    cls = fc.model.classes[fc.cls]
    for fn in cls.methods.values():
        if fn is fc.fn:
            continue
        for n in ast.walk(fn):
            tg = []
            if isinstance(n, ast.Assign):
                tg = n.targets
            elif isinstance(n, (ast.AugAssign, ast.AnnAssign)):
                tg = [n.target]
            for t in tg:
                for tt in (t.elts if isinstance(t, (ast.Tuple, ast.List)) else [t]):
                    if is_self_attr(tt, attr):
                        if fn.name == "__init__" and isinstance(n, ast.Assign) and isinstance(n.value, ast.Constant) and n.value.value is None:
                            continue
                        return False
    xs = _src(X)
    tests = [t for subj, t in leaf_fact_subjects(fc, at) if subj == xs and guard_still_valid(fc, t, at, X)]
    if not tests:
        return False
    T = tests[0]
    for n, r in fc.defs_of(xs):
        if not fc.cfg.must_pass(n, {T}, {fc.cfg.exit}):
            return False
    for s in fc.cfg.succ_by_label(T, True):
        if s is not at and not fc.cfg.must_pass(s, {at}, {fc.cfg.exit}):
            return False
    return True


def layer_index(fc, lay, at, depth=0):
    """`lay` denotes the layer of depth D - NL[D], partition.get_layer_node_list(D), enumerate(<layer>),
    a local alias of such, or the element variable of `for D, lay in enumerate(NL)`: return D (AST)."""
    if isinstance(lay, ast.Subscript) and not isinstance(lay.slice, ast.Slice) and is_nodelist_expr(fc, lay.value, at):
        return lay.slice
    if isinstance(lay, ast.Call) and method_name(lay) == "get_layer_node_list":
        a = get_arg(lay, 0, "depth")
        return a
    if isinstance(lay, ast.Call) and isinstance(lay.func, ast.Name) and lay.func.id in ("enumerate", "list", "reversed") and lay.args:
        return layer_index(fc, lay.args[0], at, depth + 1) if depth < 4 else None
    if isinstance(lay, ast.Name) and depth < 4:
        ds, entry = fc.reaching(lay.id, at)
        if entry or not ds:
            return None
        found = None
        for n, r in ds:
            d = None
            if r[0] == "assign":
                d = layer_index(fc, r[1], n, depth + 1)
            elif r[0] == "for":
                # for D, lay in enumerate(NL)
                it, tg = r[1], r[2]
                if isinstance(it, ast.Call) and isinstance(it.func, ast.Name) and it.func.id == "enumerate" and len(it.args) == 1 and \
                        is_nodelist_expr(fc, it.args[0], n) and isinstance(tg, ast.Tuple) and len(tg.elts) == 2 and \
                        isinstance(tg.elts[0], ast.Name) and _src(tg.elts[1]) == lay.id:
                    d = tg.elts[0]
            if d is None:
                return None
            if fc.stores_between(n, at, deps(d) - {lay.id}, [k for k, _ in ds if k is not n]) and r[0] != "for":
                return None
            if found is not None and _src(found) != _src(d):
                return None
            found = d
        return found
    return None


def enclosing_loops(fc, node_ast):
    out = []
    p = fc.model.up(node_ast)
    while p is not None and p is not fc.fn:
        if isinstance(p, (ast.For, ast.While)):
            out.append(p)
        p = fc.model.up(p)
    return out


def cell_sweep(fc, cell, at):
    """Which cells does the statement at CFG node `at` visit through the variable `cell` (AST Name)?
    Returns None when `cell` is not the element variable of a loop nest over the node list, else a dict
      layers: ("all",) | ("from", a) [layers a..deepest] | ("range", a, b) [layers a..b-1, ASTs] | ("one", h)
      loops:  the For statements of the nest (outermost first)
      partial: reasons why a loop of the nest may skip cells (break / continue / return inside, slicing, filters are NOT included)
    Recognised nests:  for layer in NL[: or a:]: for cell in layer   |  for h, layer in enumerate(NL): for cell in layer
                       for h in range(a, b): for cell in NL[h] / get_layer_node_list(h)   |  index forms `cell = layer[i]` with
                       `for i in range(len(layer))`, and enumerate(layer)."""
    if not isinstance(cell, ast.Name):
        return None
    ds, entry = fc.reaching(cell.id, at)
    if entry or len(ds) != 1:
        return None
    n, r = ds[0]
    inner = None
    layer_expr = None
    if r[0] == "for":
        layer_expr = element_var_of_loop(r, cell.id)
        inner = n.ast
    elif r[0] == "assign" and isinstance(r[1], ast.Subscript) and isinstance(r[1].slice, ast.Name):
        # cell = layer[i] with i the variable of `for i in range(len(layer))` enclosing the assignment
        i = r[1].slice.id
        di, ei = fc.reaching(i, n)
        if not ei and len(di) == 1 and di[0][1][0] == "for":
            it = di[0][1][1]
            if isinstance(it, ast.Call) and _src(it.func) == "range" and len(it.args) == 1 and _src(it.args[0]) == "len(%s)" % _src(r[1].value) \
                    and isinstance(di[0][1][2], ast.Name):
                layer_expr = r[1].value
                inner = di[0][0].ast
    if layer_expr is None or inner is None:
        return None
    loops = [inner]
    layers = None
    head = fc.cfg.node_of(inner)
    # for cell in itertools.chain.from_iterable(NL) / chain(*NL): every cell of every layer, in layer order
    if isinstance(layer_expr, ast.Call) and _src(layer_expr.func) in ("itertools.chain.from_iterable", "chain.from_iterable") and \
            len(layer_expr.args) == 1 and is_nodelist_expr(fc, layer_expr.args[0], head):
        return dict(layers=("all",), loops=loops, partial=_partial_of(fc, loops))
    if isinstance(layer_expr, ast.Call) and _src(layer_expr.func) in ("itertools.chain.from_iterable", "chain.from_iterable") and \
            len(layer_expr.args) == 1:
        # ... of a slice NL[a:] / NL[a:depth+1], written in place or through a local bound once
        arg = layer_expr.args[0]
        if isinstance(arg, ast.Name):
            da, ea = fc.reaching(arg.id, head)
            if not ea and len(da) == 1 and da[0][1][0] == "assign":
                arg = da[0][1][1]
        if isinstance(arg, ast.Subscript) and isinstance(arg.slice, ast.Slice) and arg.slice.step is None and is_nodelist_expr(fc, arg.value, head) and \
                (arg.slice.upper is None or _src(arg.slice.upper) in ("self.partition.get_depth() + 1", "1 + self.partition.get_depth()",
                                                                     "self.partition.depth + 1", "len(self.partition.get_node_list())", "len(node_list)")):
            lo = arg.slice.lower
            return dict(layers=("all",) if lo is None or _src(lo) == "0" else ("from", lo), loops=loops, partial=_partial_of(fc, loops))
    if isinstance(layer_expr, ast.Call) and _src(layer_expr.func) in ("itertools.chain", "chain") and len(layer_expr.args) == 1 and \
            isinstance(layer_expr.args[0], ast.Starred) and is_nodelist_expr(fc, layer_expr.args[0].value, head):
        return dict(layers=("all",), loops=loops, partial=_partial_of(fc, loops))
    # the layer: NL[h] / get_layer_node_list(h) with h a range variable, or the element variable of a loop over NL
    if isinstance(layer_expr, ast.Name):
        dl, el = fc.reaching(layer_expr.id, head)
        if el or len(dl) != 1:
            return None
        m, rl = dl[0]
        if rl[0] == "assign":
            layer_expr, head = rl[1], m
        elif rl[0] == "for":
            it, tg = rl[1], rl[2]
            src_list = None
            trunc = False
            if isinstance(tg, ast.Name) and isinstance(it, ast.Call) and _src(it.func) in ("islice", "itertools.islice") and len(it.args) == 2 and \
                    not it.keywords:
                # for layer in islice(X, n): the first n elements of X
                src_list = it.args[0]
                trunc = True
            elif isinstance(tg, ast.Name):
                src_list = it
            elif isinstance(tg, ast.Tuple) and len(tg.elts) == 2 and isinstance(it, ast.Call) and _src(it.func) == "enumerate" and len(it.args) == 1 \
                    and _src(tg.elts[1]) == layer_expr.id:
                src_list = it.args[0]
            if src_list is None and isinstance(tg, ast.Tuple) and len(tg.elts) == 2 and isinstance(it, ast.Call) and _src(it.func) == "zip" and \
                    len(it.args) == 2 and not it.keywords and _src(tg.elts[1]) == layer_expr.id and isinstance(it.args[0], ast.Call) and \
                    _src(it.args[0].func) == "range" and len(it.args[0].args) == 1:
                # for _, layer in zip(range(n), X): the first n elements of X
                src_list = it.args[1]
                trunc = True
            if src_list is None and isinstance(tg, ast.Name) and isinstance(it, ast.Call) and _src(it.func) in ("islice", "itertools.islice") and \
                    len(it.args) == 2 and not it.keywords:
                # for layer in islice(X, n): the first n elements of X
                src_list = it.args[0]
                trunc = True
            if src_list is None:
                return None
            lo = None
            base = src_list
            derived = trunc
            FULL_UPPER = ("self.partition.get_depth() + 1", "1 + self.partition.get_depth()", "self.partition.depth + 1",
                          "len(self.partition.get_node_list())", "len(node_list)")
            while True:
                if isinstance(base, ast.Subscript) and isinstance(base.slice, ast.Slice):
                    if base is src_list and (base.slice.upper is None or _src(base.slice.upper) in FULL_UPPER) and base.slice.step is None:
                        # NL[a:] and NL[a:depth+1] are the same layers (the node list has depth+1 layers)
                        lo = base.slice.lower
                    else:
                        derived = True
                    base = base.value
                elif isinstance(base, ast.Call) and isinstance(base.func, ast.Name) and base.func.id in ("reversed", "list") and len(base.args) == 1:
                    derived = True
                    base = base.args[0]
                else:
                    break
            if not is_nodelist_expr(fc, base, m):
                return None
            loops.insert(0, m.ast)
            if derived:
                layers = ("seq", it if trunc else src_list)
            else:
                layers = ("all",) if lo is None or _src(lo) == "0" else ("from", lo)
        else:
            return None
    if layers is None:
        h = layer_index(fc, layer_expr, head)
        if h is None:
            return None
        if isinstance(h, ast.Name):
            dh, eh = fc.reaching(h.id, head)
            if not eh and len(dh) == 1 and dh[0][1][0] == "for" and isinstance(dh[0][1][2], ast.Name):
                it = dh[0][1][1]
                if isinstance(it, ast.Call) and _src(it.func) == "range" and len(it.args) in (1, 2) and not it.keywords:
                    a = it.args[0] if len(it.args) == 2 else ast.Constant(value=0)
                    b = it.args[-1]
                    layers = ("range", a, b)
                    loops.insert(0, dh[0][0].ast)
        if layers is None:
            layers = ("one", h)
    partial = _partial_of(fc, loops)
    return dict(layers=layers, loops=loops, partial=partial)


def _partial_of(fc, loops):
    partial = []
    for L in loops:
        for x in ast.walk(L):
            if isinstance(x, (ast.Break, ast.Return)) or (isinstance(x, ast.Continue)):
                # a continue/break that belongs to a loop nested deeper than the visit statement does not cut the sweep short
                owner = fc.model.up(x)
                while owner is not None and not isinstance(owner, (ast.For, ast.While)):
                    owner = fc.model.up(owner)
                if isinstance(x, ast.Return) or owner in loops:
                    partial.append("%s at line %s" % (type(x).__name__.lower(), x.lineno))
    return partial


def sweep_is_all_layers(fc, sw, min_layer=0):
    """Does the sweep cover every layer from `min_layer` to the deepest one?"""
    if sw is None:
        return False
    lay = sw["layers"]
    depth_plus_1 = ("self.partition.get_depth() + 1", "1 + self.partition.get_depth()", "len(self.partition.get_node_list())",
                    "self.partition.depth + 1")
    if lay[0] == "all":
        return min_layer >= 0
    if lay[0] == "seq":
        # a reordering of the whole node list covers every layer
        return _src(lay[1]).replace(" ", "") in ("reversed(%s)" % x for x in NODELIST_CALLS) or \
            any(_src(lay[1]).replace(" ", "") == x + "[::-1]" for x in NODELIST_CALLS)
    if lay[0] == "from":
        return _src(lay[1]) in [str(k) for k in range(0, min_layer + 1)]
    if lay[0] == "range":
        return _src(lay[1]) in [str(k) for k in range(0, min_layer + 1)] and _src(lay[2]) in depth_plus_1
    return False


def element_var_of_loop(r, name):
    """For a definition record ('for', iter, target) of `name`: the iterable whose ELEMENTS the name ranges over
    (for x in L -> L; for i, x in enumerate(L) -> L when name is x), else None."""
    it, tg = r[1], r[2]
    if isinstance(tg, ast.Name) and tg.id == name:
        if isinstance(it, ast.Call) and isinstance(it.func, ast.Name) and it.func.id in ("enumerate", "range", "zip"):
            return None
        return it
    if isinstance(tg, ast.Tuple) and len(tg.elts) == 2 and isinstance(it, ast.Call) and isinstance(it.func, ast.Name) \
            and it.func.id == "enumerate" and it.args and _src(tg.elts[1]) == name:
        return it.args[0]
    return None


def is_child_of(fc, v, cursor, at, depth=0):
    """Does value `v` (AST, evaluated at CFG node `at`) denote one of the children of cell `cursor` (source)?"""
    if depth > 4:
        return False
    kids = (cursor + ".get_children()", cursor + ".children")

    def children_expr(e, where):
        if _src(e) in kids:
            return True
        if isinstance(e, ast.Subscript) and isinstance(e.slice, ast.Slice):
            return children_expr(e.value, where)
        if isinstance(e, ast.Name):
            ds, entry = fc.reaching(e.id, where)
            return (not entry) and bool(ds) and all(r[0] == "assign" and children_expr(r[1], n) and
                                                    not fc.stores_between(n, where, {cursor}, [k for k, _ in ds if k is not n]) for n, r in ds)
        return False
    if isinstance(v, ast.Subscript) and not isinstance(v.slice, ast.Slice):
        return children_expr(v.value, at)
    if isinstance(v, ast.Name):
        ds, entry = fc.reaching(v.id, at)
        if entry or not ds:
            return False
        for n, r in ds:
            if r[0] == "assign":
                if not is_child_of(fc, r[1], cursor, n, depth + 1):
                    return False
            elif r[0] == "for":
                it = element_var_of_loop(r, v.id)
                if it is None or not children_expr(it, n):
                    return False
            else:
                return False
        return True
    return False


def leaf_fact_subjects(fc, at):
    """Sources S such that a dominating guard at `at` states `S has no children`, together with
    the guard's test node."""
    out = []
    for atom, t, lab, e in C.facts_at(fc.cfg, at):
        op, l, r = atom
        subj = None
        if op == "is" and r == "None" and (l.endswith(".get_children()") or l.endswith(".children")):
            subj = l[: l.rfind(".")]
        elif op == "falsy" and (l.endswith(".get_children()") or l.endswith(".children")):
            subj = l[: l.rfind(".")]
        if subj is not None:
            out.append((subj, t))
    return out


def guard_still_valid(fc, t, at, subject_ast_or_src, avoid=()):
    """No store to the subject's locations and no tree growth between guard test `t` and `at`."""
    if isinstance(subject_ast_or_src, str):
        try:
            subject = ast.parse(subject_ast_or_src, mode="eval").body
        except SyntaxError:
            return False
    else:
        subject = subject_ast_or_src
    if fc.stores_between(t, at, deps(subject), avoid):
        return False
    if fc.growth_between(t, at, avoid):
        return False
    return True


def proves_leaf(fc, X, at, depth=0):
    """Try to discharge `X is a leaf at node at` inside one function.  Returns (ok, how)."""
    xs = _src(X)
    # (a) dominating guard on X itself
    for subj, t in leaf_fact_subjects(fc, at):
        if subj == xs and guard_still_valid(fc, t, at, X):
            return True, "dominating guard '%s has no children' (line %s)" % (subj, t.line)
    # (b) selection under guard: every reaching definition of X copies a cell that is guarded as a leaf
    if isinstance(X, ast.Name) or is_self_attr(X):
        ds, entry = fc.reaching(xs, at)
        real = [(n, r) for n, r in ds if not (r[0] == "assign" and isinstance(r[1], ast.Constant) and r[1].value is None)]
        if real and not entry:
            hows = []
            for n, r in real:
                if r[0] != "assign":
                    return False, "definition of %s at line %s is not a plain copy of a guarded cell" % (xs, n.line)
                kills = [k for k, _ in ds if k is not n]
                if fc.growth_between(n, at, kills):
                    return False, "the tree may grow between the selection of %s (line %s) and the expansion" % (xs, n.line)
                ok, how = proves_leaf(fc, r[1], n, depth + 1) if depth < 3 else (False, "")
                if not ok:
                    return False, "selection '%s = %s' (line %s) is not under a leaf guard" % (xs, _src(r[1]), n.line)
                hows.append("line %s: %s" % (n.line, how))
            return True, "selected under leaf guard (%s)" % "; ".join(hows)
    # (b') index variant: X = NL[D][J], J assigned from j under a leaf guard on n = NL[D][j]
    if isinstance(X, ast.Subscript) and isinstance(X.slice, ast.Name):
        J = X.slice.id
        lay = X.value
        ds, entry = fc.reaching(J, at)
        real = [(n, r) for n, r in ds if not (r[0] == "assign" and isinstance(r[1], ast.Constant) and r[1].value is None)]
        if real and not entry and layer_index(fc, lay, at) is not None:
            ok_all = True
            for n, r in real:
                if r[0] != "assign":
                    ok_all = False
                    break
                kills = [k for k, _ in ds if k is not n]
                if fc.growth_between(n, at, kills) or fc.stores_between(n, at, deps(lay), kills):
                    ok_all = False
                    break
                same = ast.Subscript(value=lay, slice=r[1], ctx=ast.Load())
                target = _src(same)
                good = False
                for subj, t in leaf_fact_subjects(fc, n):
                    if subj == target and guard_still_valid(fc, t, n, same):
                        good = True
                    elif not good:
                        # subj is a Name defined as NL[D][j]
                        try:
                            sa = ast.parse(subj, mode="eval").body
                        except SyntaxError:
                            continue
                        if isinstance(sa, ast.Name):
                            d2, e2 = fc.reaching(sa.id, t)
                            if not e2 and d2 and all(rr[0] == "assign" and _src(rr[1]) == target and
                                                     not fc.stores_between(nn, n, deps(same) | {sa.id}, [k for k, _ in d2 if k is not nn])
                                                     for nn, rr in d2) and guard_still_valid(fc, t, n, sa):
                                good = True
                if not good:
                    ok_all = False
                    break
            if ok_all:
                return True, "index %s selected under a leaf guard on %s[..]" % (J, _src(lay))
    return False, "no leaf guard dominates the call and no selection-under-guard idiom applies"


def newlayer_spec(fc, call, at):
    """Decode the `newlayer` argument: returns (D_src, D_ast, how) meaning 'newlayer is true iff
    D >= partition depth', or (None, None, reason)."""
    Earg = get_arg(call, 1, "newlayer")
    inside = fc.cls in fc.eff.partition_classes
    depth_names = PART_DEPTH_INSIDE if inside else PART_DEPTH
    if Earg is None:
        Earg = ast.Constant(value=False)

    def decode_atom(atom, want_true):
        op, l, r = atom
        # want D >= depth  <=>  depth <= D ;  '==' also accepted (D can never exceed the depth)
        if want_true:
            if op == "<=" and l in depth_names:
                return r
            if op == "==" and (l in depth_names or r in depth_names):
                return r if l in depth_names else l
        else:
            if op == "<" and r in depth_names:
                return l
            if op == "!=" and (l in depth_names or r in depth_names):
                return r if l in depth_names else l
        return None

    if isinstance(Earg, ast.Constant) and isinstance(Earg.value, bool):
        for atom, t, lab, e in C.facts_at(fc.cfg, at):
            d = decode_atom(atom, Earg.value)
            if d is not None:
                try:
                    dast = ast.parse(d, mode="eval").body
                except SyntaxError:
                    continue
                if fc.stores_between(t, at, deps(dast), ()) or fc.growth_between(t, at, ()):
                    continue
                return d, dast, "constant %s under guard at line %s" % (Earg.value, t.line)
        return None, None, "newlayer=%s is a constant and no dominating test compares a depth with the partition depth" % Earg.value
    facts = C.flatten_cond(Earg, True)
    if len(facts) == 1:
        atom = C.atom_of(facts[0][0], facts[0][1])
        d = decode_atom(atom, True)
        if d is not None:
            return d, ast.parse(d, mode="eval").body, "newlayer=(%s)" % _src(Earg)
    return None, None, "newlayer argument '%s' is not a comparison 'D >= partition depth'" % _src(Earg)


def _const_int(e):
    return isinstance(e, ast.Constant) and isinstance(e.value, int) and not isinstance(e.value, bool)


def proves_depth(fc, X, D, at, _depth=0):
    """Is D (AST) the depth of cell X at CFG node `at`?  Returns (ok, how)."""
    xs, dsrc = _src(X), _src(D)
    # (a) D is X's own depth
    if dsrc in (xs + ".get_depth()", xs + ".depth"):
        return True, "D is the cell's own depth"
    # (b) X is an element of layer NL[D'] (C03's invariant: layer h holds the depth-h cells)
    lay = layer_of(fc, X, at)
    if lay is not None:
        if _src(lay) == dsrc:
            return True, "cell taken from layer [%s] of the node list" % dsrc
        if _const_int(lay):
            want = tuple(sorted((str(lay.value), dsrc)))
            for atom, t, lab, e in C.facts_at(fc.cfg, at):
                op, l, r = atom
                if op == "==" and tuple(sorted((l, r))) == want and not fc.stores_between(t, at, deps(D), ()):
                    return True, "cell taken from layer [%s] under the guard %s == %s (line %s)" % (lay.value, dsrc, lay.value, t.line)
            return False, "cell comes from layer [%s] but D is '%s' and no guard equates them" % (lay.value, dsrc)
        # different expressions: try pairing through definitions below
    r = _range_counter_depth(fc, X, D, at)
    if r is not None:
        return r
    # (c) paired definitions: every definition of X reaching the call has a twin definition of D
    if (isinstance(X, ast.Name) or is_self_attr(X)) and (isinstance(D, ast.Name) or is_self_attr(D)):
        dx, ex = fc.reaching(xs, at)
        dd, ed = fc.reaching(dsrc, at)
        dx = [(n, r) for n, r in dx if not _none_def(r)]
        # (an entry-reaching 'D' is harmless: D is only ever set together with X, so where D is unset X is None)
        if dx and dd and not ex:
            used = set()
            for n, r in dx:
                twin = None
                for m, rd in dd:
                    if together(fc, n, m):
                        twin = (m, rd)
                if twin is None and r[0] == "assign" and isinstance(r[1], ast.Name) and r[1].id != xs and _depth < 3:
                    # X = Y: a copy - X has the depth D at this point if Y has (and D is what it was when Y got it)
                    ok2, how2 = proves_depth(fc, r[1], D, n, _depth + 1)
                    if ok2:
                        dm, _e = fc.reaching(dsrc, n)
                        used |= {m2 for m2, _r in dm}
                        continue
                    return False, "%s is a copy of %s (line %s), whose depth is not %s: %s" % (xs, r[1].id, n.line, dsrc, how2)
                if twin is None:
                    return False, "definition of %s at line %s has no accompanying definition of %s" % (xs, n.line, dsrc)
                m, rd = twin
                used.add(m)
                if rd[0] == "assign" and _src(rd[1]) in (xs + ".get_depth()", xs + ".depth") and m.id > n.id:
                    continue        # D is read off the cell right after the cell is chosen
                if r[0] == "assign" and (_is_child_step(r[1], xs) or is_child_of(fc, r[1], xs, n)):
                    if not (rd[0] == "aug" and isinstance(rd[1], ast.Add) and _const_int(rd[2]) and rd[2].value == 1
                            or rd[0] == "assign" and _src(rd[1]) in ("%s + 1" % dsrc, "1 + %s" % dsrc)):
                        return False, "cell steps to a child at line %s but %s is not incremented by one with it" % (n.line, dsrc)
                    continue
                if r[0] == "unpack" and rd[0] == "unpack" and n is m:
                    # (D, X) = T[k] with T a local table of (depth, cell) records: every record put into T pairs a cell with the
                    # index of the layer it was taken from
                    okt, howt = table_of_depth_cell_pairs(fc, r[1], r[2], xs, dsrc)
                    if okt:
                        continue
                    return False, howt
                if r[0] == "assign":
                    lay2 = layer_of(fc, r[1], n)
                elif r[0] == "for":
                    it2 = element_var_of_loop(r, xs)
                    lay2 = layer_index(fc, it2, n) if it2 is not None else None
                else:
                    lay2 = None
                if lay2 is None:
                    return False, "definition of %s at line %s does not take a cell from a layer" % (xs, n.line)
                if _src(lay2) == dsrc and m.id < n.id:
                    continue        # the cell is taken from layer [D] with D defined just before: D is its depth
                if not (rd[0] == "assign" and _src(rd[1]) == _src(lay2)):
                    return False, "%s is taken from layer [%s] but %s is set to '%s' (line %s)" % (
                        xs, _src(lay2), dsrc, _src(rd[1]) if rd[0] == "assign" else rd[0], m.line)
                lo, hi = (n, m) if n.id < m.id else (m, n)
                if fc.stores_between(lo, hi, deps(lay2), ()):
                    return False, "layer index changes between the paired definitions"
            if any(m not in used for m, _ in dd):
                return False, "%s has a definition that is not paired with a definition of %s" % (dsrc, xs)
            return True, "%s and %s are defined in lock-step (%d paired definitions)" % (xs, dsrc, len(dx))
    return False, "'%s' is not recognised as the depth of cell '%s'" % (dsrc, xs)


def table_of_depth_cell_pairs(fc, value, target, xs, dsrc):
    """`target = value` unpacks an element of a local list T.  True when T is only ever created empty / as a display and filled by
    `T.append((.., .., ..))` with records of the target's length in which the component at X's position is a cell of the layer
    whose index is the component at D's position; T is never aliased, passed on or modified otherwise."""
    if not (isinstance(value, ast.Subscript) and isinstance(value.value, ast.Name) and isinstance(target, (ast.Tuple, ast.List))):
        return False, "the unpacked value is not an element of a local table"
    T = value.value.id
    names = [_src(t) for t in target.elts]
    if xs not in names or dsrc not in names:
        return False, "the record does not carry both the cell and its depth"
    px, pd = names.index(xs), names.index(dsrc)
    recs = 0
    for nd in ast.walk(fc.fn):
        if not (isinstance(nd, ast.Name) and nd.id == T):
            continue
        p1 = fc.model.up(nd)
        if isinstance(nd.ctx, ast.Store):
            if isinstance(p1, ast.Assign) and len(p1.targets) == 1 and p1.targets[0] is nd and isinstance(p1.value, ast.List) and not p1.value.elts:
                continue
            return False, "the table %s is also bound otherwise (line %s)" % (T, nd.lineno)
        if isinstance(p1, ast.Subscript) and p1.value is nd and isinstance(p1.ctx, ast.Load):
            continue
        if isinstance(p1, ast.Call) and _src(p1.func) == "len":
            continue
        if isinstance(p1, ast.Attribute) and p1.attr == "append" and isinstance(fc.model.up(p1), ast.Call) and fc.model.up(p1).func is p1:
            call = fc.model.up(p1)
            if len(call.args) != 1 or not isinstance(call.args[0], (ast.Tuple, ast.List)) or len(call.args[0].elts) != len(names):
                return False, "a record of another shape is put into %s at line %s" % (T, call.lineno)
            ex, ed = call.args[0].elts[px], call.args[0].elts[pd]
            lay = layer_of(fc, ex, fc.node_of(call))
            if lay is None or _src(lay) != _src(ed):
                return False, "the record put into %s at line %s pairs '%s' with depth '%s' but the cell is taken from layer [%s]" % (
                    T, call.lineno, _src(ex), _src(ed), _src(lay) if lay is not None else "?")
            recs += 1
            continue
        return False, "the table %s is used in a way that may change it (line %s)" % (T, nd.lineno)
    if not recs:
        return False, "nothing is ever put into the table %s" % T
    return True, "records of %s pair a cell with its layer index" % T


def _range_counter_depth(fc, X, D, at):
    """(d) D is the variable of `for D in range(a, b)` and X descends one level per iteration: depth(X) == D at the loop
    head by induction - X has depth a when the loop is entered, and every iteration performs exactly one unconditional
    step X = X.get_children()[..] (no other definition of X, no continue), after the point `at`."""
    xs, dsrc = _src(X), _src(D)
    if not isinstance(D, ast.Name) or not (isinstance(X, ast.Name) or is_self_attr(X)):
        return None
    dd, ed = fc.reaching(dsrc, at)
    if ed or len(dd) != 1 or dd[0][1][0] != "for":
        return None
    head, (_, it, tgt) = dd[0]
    loop = head.ast
    if not (isinstance(tgt, ast.Name) and isinstance(it, ast.Call) and isinstance(it.func, ast.Name) and it.func.id == "range" and
            len(it.args) in (1, 2) and not it.keywords and isinstance(loop, ast.For)):
        return None
    a = it.args[0] if len(it.args) == 2 else ast.Constant(value=0)
    inside = {id(x) for b in loop.body for x in ast.walk(b)}
    if id(at.ast) not in inside and not any(id(x) in inside for x in ast.walk(at.ast)):
        return None
    if any(isinstance(x, ast.Continue) for b in loop.body for x in ast.walk(b)):
        return False, "the loop over %s contains a continue: a level could be skipped without stepping %s" % (dsrc, xs)
    steps = []
    for b in loop.body:
        for x in ast.walk(b):
            tg = x.targets if isinstance(x, ast.Assign) else ([x.target] if isinstance(x, (ast.AugAssign, ast.AnnAssign, ast.For)) else [])
            for t in tg:
                for y in ast.walk(t):
                    if _src(y) == xs and isinstance(getattr(y, "ctx", None), ast.Store):
                        steps.append((b, x))
    if len(steps) != 1 or steps[0][0] is not steps[0][1] or not isinstance(steps[0][1], ast.Assign) or not _is_child_step(steps[0][1].value, xs):
        return False, "%s is not stepped to one of its children exactly once, unconditionally, per iteration of the loop over %s" % (xs, dsrc)
    step_node = fc.cfg.node_of(steps[0][1])
    if fc.cfg.paths_avoiding(step_node, at, [head]):
        return False, "%s is used after it was stepped to a child within the same iteration" % xs
    pre = [q for q in fc.cfg.G.predecessors(head) if getattr(q, "ast", None) is None or
           (id(q.ast) not in inside and q.ast is not loop)]
    ok, how = bool(pre), "loop has no entry edge"
    for q in pre:
        # the state just after q == the state in which the loop is entered; q itself may be the definition of X
        succs = [t for t in fc.cfg.G.successors(q)]
        ok, how = proves_depth_after(fc, X, a, q, head)
        if not ok:
            break
    if not ok:
        return False, "at the entry of the loop over %s, %s is not shown to have depth %s: %s" % (dsrc, xs, _src(a), how)
    return True, "%s descends one level per iteration of `for %s in range(%s, ..)` and has depth %s at loop entry (%s)" % (xs, dsrc, _src(a), _src(a), how)


def proves_depth_after(fc, X, D, q, head):
    """proves_depth in the state in which `head` is entered from its predecessor q (definitions flowing around the loop's back
    edge are not considered): judged with the loop's other incoming edges cut."""
    G = fc.cfg.G
    cut = [(p, head, dict(G[p][head])) for p in list(G.predecessors(head)) if p is not q]
    for p, h, _ in cut:
        G.remove_edge(p, h)
    try:
        return proves_depth(fc, X, D, head)
    finally:
        for p, h, data in cut:
            G.add_edge(p, h, **data)


def _is_child_step(rhs, xs):
    """rhs is X.get_children()[..] (a step from X to one of its children)."""
    return isinstance(rhs, ast.Subscript) and _src(rhs.value) in (xs + ".get_children()", xs + ".children")


def together(fc, n, m):
    """Two simple statements in the same statement list with only simple statements between."""
    if n.kind != "stmt" or m.kind != "stmt":
        return False
    pa = fc.model.up(n.ast)
    pb = fc.model.up(m.ast)
    if pa is not pb:
        return False
    for field in ("body", "orelse"):
        lst = getattr(pa, field, None)
        if isinstance(lst, list) and n.ast in lst and m.ast in lst:
            i, j = sorted((lst.index(n.ast), lst.index(m.ast)))
            return all(not isinstance(s, (ast.If, ast.While, ast.For, ast.Return, ast.Break, ast.Continue, ast.Raise))
                       for s in lst[i + 1:j])
    return False


def cells_equal(fc, A, B, at):
    """Do expressions A and B (ASTs) denote the same cell at CFG node `at`?  Textual identity, or
    `L[idx]` versus a name x where x and idx are always assigned together from an (index, element) pair of L."""
    if _src(A) == _src(B):
        return True, "same expression"
    for P, Q in ((A, B), (B, A)):
        if isinstance(P, ast.Subscript) and isinstance(P.slice, ast.Name) and isinstance(Q, ast.Name):
            L, idx, x = P.value, P.slice.id, Q.id
            dx, ex = fc.reaching(x, at)
            di, ei = fc.reaching(idx, at)
            dx = [(n, r) for n, r in dx if not _none_def(r)]
            di = [(n, r) for n, r in di if not _none_def(r)]
            if ex or ei or not dx or len(dx) != len(di):
                continue
            ok = True
            used = set()
            for n, r in dx:
                twin = [(m, rd) for m, rd in di if together(fc, n, m)]
                if len(twin) != 1 or r[0] != "assign" or twin[0][1][0] != "assign" or not isinstance(r[1], ast.Name) or \
                        not isinstance(twin[0][1][1], ast.Name):
                    ok = False
                    break
                m, rd = twin[0]
                used.add(m)
                e, i = r[1].id, rd[1].id
                de, ee = fc.reaching(e, n)
                good = False
                if not ee and de:
                    good = True
                    for nn, rr in de:
                        if rr[0] == "for" and isinstance(rr[2], ast.Tuple) and len(rr[2].elts) == 2 and _src(rr[2].elts[0]) == i \
                                and _src(rr[2].elts[1]) == e and isinstance(rr[1], ast.Call) and isinstance(rr[1].func, ast.Name) \
                                and rr[1].func.id == "enumerate" and len(rr[1].args) == 1 and _src(rr[1].args[0]) == _src(L):
                            continue
                        if rr[0] == "assign" and _src(rr[1]) == "%s[%s]" % (_src(L), i):
                            continue
                        good = False
                if not good:
                    ok = False
                    break
                if fc.stores_between(n, at, deps(L) | {i} - {x, idx}, [k for k, _ in dx if k is not n]) and False:
                    ok = False
            allx = [k for k, _ in fc.defs_of(x)]
            if ok and len(used) == len(di) and all(not fc.stores_between(n, at, deps(L), [k for k in allx if k is not n]) for n, _ in dx):
                return True, "%s and %s are always assigned together from an (index, element) pair of %s" % (x, idx, _src(L))
    return False, "different expressions"
