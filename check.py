#!/usr/bin/env python3
"""CLI of the PyXAB static checkers.

    python3-vt check.py --property C03 [--tier quick|thorough] [--repo /repo]

Parses /repo's current working tree (never imports or runs it), applies the
rules of the property and prints the verdict.  Exit 0 / 1 (VIOLATION) / 2
(ANALYSIS-ERROR, fail-closed).
"""
import argparse
import importlib
import os
import sys
import traceback

HERE = os.path.dirname(os.path.abspath(__file__))
sys.path.insert(0, HERE)


def main(argv=None):
    ap = argparse.ArgumentParser()
    ap.add_argument("--property", required=True)
    ap.add_argument("--tier", default=os.environ.get("VERIF_TIER", "quick"), choices=["quick", "thorough"])
    ap.add_argument("--repo", default=None)
    ap.add_argument("--no-selftest", action="store_true")
    a = ap.parse_args(argv)
    if a.repo:
        os.environ["PYXAB_REPO"] = a.repo
    try:
        seed = int(os.environ.get("VERIF_SEED", "0"))
    except ValueError:
        seed = 0
    prop = a.property.upper()
    from pyxab_static import report
    from pyxab_static.model import Model
    try:
        mod = importlib.import_module("pyxab_static.rules.%s" % prop.lower())
    except ModuleNotFoundError:
        print("ANALYSIS-ERROR property=%s no checker is registered for this property" % prop)
        return 2
    try:
        model = Model(a.repo)
        ctx = report.Ctx(prop, a.tier, seed, model)
        info = mod.run(ctx)
        if a.tier == "thorough" and not a.no_selftest and hasattr(mod, "selftest"):
            ctx.extra["selftest"] = mod.selftest(ctx)
        return report.finish(ctx, info["explanation"], info["assumptions"], technique=info.get("technique", ""))
    except report.AnalysisError as ex:
        print("ANALYSIS-ERROR property=%s %s" % (prop, ex))
        return 2
    except Exception as ex:  # engine bug or unsupported construct: fail closed, not a violation
        traceback.print_exc()
        print("ANALYSIS-ERROR property=%s internal error: %r" % (prop, ex))
        return 2


if __name__ == "__main__":
    sys.exit(main())
