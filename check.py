#!/usr/bin/env python3
"""CLI of the PyXAB static checkers.

    python3-vt check.py --property C03 [--tier quick|thorough] [--repo /repo]

Parses /repo's current working tree (never imports or runs it), applies the
rules of the property and prints the verdict.  Exit 0 / 1 (VIOLATION) / 2
(ANALYSIS-ERROR, fail-closed).
"""
import argparse
import importlib
import os
import pathlib
import sys
import traceback

HERE = os.path.dirname(os.path.abspath(__file__))
sys.path.insert(0, HERE)


def main(argv=None):
    ap = argparse.ArgumentParser()
    ap.add_argument("--property", required=True)
    ap.add_argument("--tier", default=os.environ.get("VERIF_TIER", "quick"), choices=["quick", "thorough"])
    ap.add_argument("--repo", default=None)
    ap.add_argument("--no-selftest", action="store_true")
    a = ap.parse_args(argv)
    if a.repo:
        os.environ["PYXAB_REPO"] = a.repo
    try:
        seed = int(os.environ.get("VERIF_SEED", "0"))
    except ValueError:
        seed = 0
    prop = a.property.upper()
    from pyxab_static import report
    from pyxab_static.model import Model
    try:
        mod = importlib.import_module("pyxab_static.rules.%s" % prop.lower())
    except ModuleNotFoundError:
        print("ANALYSIS-ERROR property=%s no checker is registered for this property" % prop)
        return 2
    try:
        model = Model(a.repo)
        ctx = report.Ctx(prop, a.tier, seed, model)
        try:
            info = mod.run(ctx)
        except report.AnalysisError as ex:
            if type(ex).__name__ in ("Untranslatable", "HasLoop", "Unsupported", "Uninterpretable"):
                # a construct one of the engines cannot interpret reached the top of the rule module: by the verdict policy
                # (DESIGN.md 0a) an obligation that cannot be discharged at code that exists is a violation, not an analysis
                # failure - the rules that were evaluated before it keep their verdicts
                ctx.violation("R%s-ENGINE" % prop[1:], "PyXAB", prop, "construct outside the analysed subset",
                              "obligation not discharged: the code uses a construct the analysis cannot interpret (%s)" % ex)
                ex = None
                info = dict(explanation="the analysis stopped at a construct it cannot interpret; it is reported as an undischarged obligation",
                            assumptions=[], technique="")
            if ex is None:
                pass
            else:
              # part of the analysis could not be carried out.  If violations were already established they are
              # reported (exit 1) with the failure as a note; otherwise the run is analysis-broken (exit 2).
              known = {k["key"] for k in report.load_known() if k.get("status") == "known"}
              if not [f for f in ctx.findings if f.key not in known]:
                raise ex
              ctx.shortfalls.append("analysis incomplete: %s" % ex)
              info = dict(explanation="analysis incomplete (%s); the violations found before that point are reported" % ex,
                        assumptions=[], technique="")
        known_keys = {k["key"] for k in report.load_known() if k.get("status") == "known"}
        has_new = bool([f for f in ctx.findings if f.key not in known_keys])
        if a.tier == "thorough" and not a.no_selftest and has_new:
            # the self-test edits are applied on top of the tree under analysis; on a tree that already violates the property
            # their verdicts say nothing about the checker - the violation is reported, the self-test is skipped
            ctx.extra["selftest"] = dict(skipped="the tree under analysis violates the property; self-test not meaningful")
        if a.tier == "thorough" and not a.no_selftest and not has_new:
            sys.path.insert(0, os.path.join(HERE, "selftest"))
            import run as selftest_run
            summary, res = selftest_run.run_for(prop)
            ctx.extra["selftest"] = dict(summary, results=[dict(id=r["id"], kind=r["kind"], status=r["status"], exit=r.get("exit")) for r in res])
            if summary["wrong"]:
                print("ANALYSIS-ERROR property=%s self-test: %d variant(s) judged wrongly: %s" % (
                    prop, len(summary["wrong"]), [w["id"] for w in summary["wrong"]]))
                report.finish(ctx, info["explanation"], info["assumptions"], technique=info.get("technique", ""))
                return 2
            # the independent corpora (seeded breaking changes of this property, all behaviour-preserving refactorings) are
            # diffs against the reference tree: replayed only when the tree under analysis IS the reference tree
            import corpora
            refd = (pathlib.Path(HERE) / "selftest" / "reference_digest.txt")
            if refd.exists() and corpora.tree_digest(str(model.repo)) == refd.read_text().strip():
                cs = corpora.run_for(prop, str(model.repo))
                ctx.extra["corpora"] = {k: v for k, v in cs.items() if k != "wrong"}
                if cs["wrong"]:
                    print("ANALYSIS-ERROR property=%s corpus replay: %d item(s) judged wrongly: %s" % (
                        prop, len(cs["wrong"]), [(w["id"], w.get("exit")) for w in cs["wrong"]]))
                    report.finish(ctx, info["explanation"], info["assumptions"], technique=info.get("technique", ""))
                    return 2
            else:
                ctx.extra["corpora"] = dict(skipped="the tree under analysis differs from the reference tree the corpora were written against")
        return report.finish(ctx, info["explanation"], info["assumptions"], technique=info.get("technique", ""))
    except report.AnalysisError as ex:
        print("ANALYSIS-ERROR property=%s %s" % (prop, ex))
        return 2
    except Exception as ex:  # engine bug or unsupported construct: fail closed, not a violation
        traceback.print_exc()
        print("ANALYSIS-ERROR property=%s internal error: %r" % (prop, ex))
        return 2


def supervised(argv):
    """Run main() in a child process and kill it when it exceeds the time limit: a check must terminate, and a
    run-away normalisation inside a C routine (which no in-process timer can interrupt) is an analysis failure,
    never a silent hang."""
    import signal
    import time
    tier = os.environ.get("VERIF_TIER", "quick")
    prop = "?"
    for i, x in enumerate(argv):
        if x == "--tier" and i + 1 < len(argv):
            tier = argv[i + 1]
        if x == "--property" and i + 1 < len(argv):
            prop = argv[i + 1].upper()
    limit = int(os.environ.get("PYXAB_CHECK_TIMEOUT", "3000" if tier == "thorough" else "900"))
    sys.stdout.flush()
    pid = os.fork()
    if pid == 0:
        os.setsid()
        rc = 2
        try:
            rc = main(argv)
        except SystemExit as ex:
            rc = ex.code if isinstance(ex.code, int) else 2
        except BaseException:
            traceback.print_exc()
        finally:
            sys.stdout.flush()
            sys.stderr.flush()
            os._exit(rc if isinstance(rc, int) else 2)
    deadline = time.time() + limit
    while True:
        done, status = os.waitpid(pid, os.WNOHANG)
        if done:
            if os.WIFEXITED(status):
                return os.WEXITSTATUS(status)
            print("ANALYSIS-ERROR property=%s the analysis process died (status %d)" % (prop, status))
            return 2
        if time.time() > deadline:
            try:
                os.killpg(pid, signal.SIGKILL)
            except OSError:
                pass
            os.waitpid(pid, 0)
            print("ANALYSIS-ERROR property=%s analysis did not finish within %d s" % (prop, limit))
            return 2
        time.sleep(0.05)


if __name__ == "__main__":
    sys.exit(supervised(sys.argv[1:]))
