#!/usr/bin/env python3
"""Run the self-test corpus: every violating edit must make its property's check exit 1, every equivalent
edit must leave it at exit 0.  Scratch copies live under a temp dir and are removed immediately.

    python3-vt selftest/run.py [--prop C05] [--jobs 16] [--json out.json]
"""
import concurrent.futures as cf
import json
import os
import pathlib
import shutil
import subprocess
import sys
import tempfile

HERE = pathlib.Path(__file__).resolve().parent
VERIF = HERE.parent
sys.path.insert(0, str(HERE))
from corpus import CORPUS  # noqa: E402

REPO = pathlib.Path(os.environ.get("PYXAB_REPO", "/repo"))


def one(entry):
    eid, prop, file, find, repl, kind = entry
    src = (REPO / file).read_text()
    if src.count(find) != 1:
        return dict(id=eid, property=prop, kind=kind, status="stale", detail="pattern occurs %d times" % src.count(find))
    tmp = pathlib.Path(tempfile.mkdtemp(prefix="selftest_"))
    try:
        shutil.copytree(REPO / "PyXAB", tmp / "PyXAB", ignore=shutil.ignore_patterns("__pycache__", "tests"))
        (tmp / file).write_text(src.replace(find, repl))
        try:
            compile((tmp / file).read_text(), file, "exec")
        except SyntaxError as ex:
            return dict(id=eid, property=prop, kind=kind, status="broken-edit", detail=str(ex))
        env = dict(os.environ, PYXAB_EVIDENCE_DIR=str(tmp / "ev"), PYXAB_REPO=str(tmp))
        r = subprocess.run(["python3-vt", str(VERIF / "check.py"), "--property", prop, "--repo", str(tmp), "--tier", "quick", "--no-selftest"],
                           capture_output=True, text=True, env=env, cwd=str(VERIF))
        lines = [l.strip() for l in r.stdout.splitlines() if l.startswith("  ") or l.startswith("ANALYSIS-ERROR")]
        want = 1 if kind == "V" else 0
        return dict(id=eid, property=prop, kind=kind, status="ok" if r.returncode == want else "WRONG", exit=r.returncode,
                    first=(lines[0][:200] if lines else ""))
    finally:
        shutil.rmtree(tmp, ignore_errors=True)


def run_for(prop=None, jobs=16):
    entries = [e for e in CORPUS if prop is None or e[1] == prop]
    with cf.ThreadPoolExecutor(jobs) as ex:
        res = list(ex.map(one, entries))
    summary = dict(variants=len(res), violating_killed=sum(1 for r in res if r["kind"] == "V" and r["status"] == "ok"),
                   violating_total=sum(1 for r in res if r["kind"] == "V" and r["status"] != "stale"),
                   equivalent_silent=sum(1 for r in res if r["kind"] == "E" and r["status"] == "ok"),
                   equivalent_total=sum(1 for r in res if r["kind"] == "E" and r["status"] != "stale"),
                   stale=[r["id"] for r in res if r["status"] == "stale"],
                   wrong=[r for r in res if r["status"] in ("WRONG", "broken-edit")])
    return summary, res


if __name__ == "__main__":
    prop = None
    jobs = 16
    out = None
    a = sys.argv[1:]
    for i, x in enumerate(a):
        if x == "--prop":
            prop = a[i + 1]
        if x == "--jobs":
            jobs = int(a[i + 1])
        if x == "--json":
            out = a[i + 1]
    summary, res = run_for(prop, jobs)
    for r in res:
        if r["status"] != "ok":
            print("%-28s %-4s %s %-7s exit=%s %s" % (r["id"], r["property"], r["kind"], r["status"], r.get("exit"), r.get("first", r.get("detail", ""))))
    print(json.dumps({k: v for k, v in summary.items() if k != "wrong"}))
    if out:
        pathlib.Path(out).write_text(json.dumps(dict(summary=summary, results=res), indent=1))
    sys.exit(1 if summary["wrong"] else 0)
