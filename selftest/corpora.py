#!/usr/bin/env python3
"""Thorough-tier self-validation against the two independent corpora, for one property:
every seeded breaking change written against that property must make its check exit 1 (those recorded as caught in
seeded/EXPECTED.json), every behaviour-preserving refactoring in benign/ must leave it at exit 0.
Only meaningful on the reference tree (the patches are diffs against it): callers compare the source digest first."""
import concurrent.futures as cf
import hashlib
import json
import os
import pathlib
import shutil
import subprocess
import tempfile

VERIF = pathlib.Path(__file__).resolve().parent.parent


def tree_digest(repo):
    h = hashlib.sha256()
    for pkg in ("PyXAB/algos", "PyXAB/partition", "PyXAB/synthetic_obj"):
        for p in sorted((pathlib.Path(repo) / pkg).glob("*.py")):
            h.update(p.name.encode())
            h.update(p.read_bytes())
    return h.hexdigest()


def _one(args):
    repo, kind, cid, prop, want = args
    tmp = pathlib.Path(tempfile.mkdtemp(prefix="corp_"))
    try:
        shutil.copytree(pathlib.Path(repo) / "PyXAB", tmp / "PyXAB", ignore=shutil.ignore_patterns("__pycache__", "tests"))
        p = subprocess.run(["patch", "-p1", "-s", "-d", str(tmp), "-i", str(VERIF / kind / cid / "patch.diff")], capture_output=True, text=True)
        if p.returncode:
            return dict(id=cid, kind=kind, status="stale")
        env = dict(os.environ, PYXAB_EVIDENCE_DIR=str(tmp / "ev"), PYXAB_REPO=str(tmp), PYXAB_CHECK_TIMEOUT="300")
        r = subprocess.run(["python3-vt", str(VERIF / "check.py"), "--property", prop, "--repo", str(tmp), "--tier", "quick", "--no-selftest"],
                           capture_output=True, text=True, env=env, cwd=str(VERIF))
        return dict(id=cid, kind=kind, status="ok" if r.returncode == want else "WRONG", exit=r.returncode)
    finally:
        shutil.rmtree(tmp, ignore_errors=True)


def run_for(prop, repo, jobs=16):
    expected = json.loads((VERIF / "seeded" / "EXPECTED.json").read_text())
    jobs_l = []
    for cid in sorted(expected.get(prop, [])):
        jobs_l.append((repo, "seeded", cid, prop, 1))
    lim = {}
    lf = VERIF / "benign" / "KNOWN_LIMITATIONS.json"
    if lf.exists():
        lim = {k: v for k, v in json.loads(lf.read_text()).items() if not k.startswith("_")}
    for d in sorted((VERIF / "benign").iterdir()):
        if (d / "patch.diff").exists():
            if prop in lim.get(d.name, {}).get("checks", []):
                continue        # documented false alarm of this check (DESIGN.md section 6): not asserted
            jobs_l.append((repo, "benign", d.name, prop, 0))
    with cf.ThreadPoolExecutor(jobs) as ex:
        res = list(ex.map(_one, jobs_l))
    return dict(seeded=sum(1 for r in res if r["kind"] == "seeded" and r["status"] == "ok"),
                seeded_total=sum(1 for r in res if r["kind"] == "seeded" and r["status"] != "stale"),
                benign=sum(1 for r in res if r["kind"] == "benign" and r["status"] == "ok"),
                benign_total=sum(1 for r in res if r["kind"] == "benign" and r["status"] != "stale"),
                stale=[r["id"] for r in res if r["status"] == "stale"],
                wrong=[r for r in res if r["status"] == "WRONG"])


if __name__ == "__main__":
    import sys
    print(json.dumps(run_for(sys.argv[1], sys.argv[2] if len(sys.argv) > 2 else "/repo"), indent=1))
